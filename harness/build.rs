// Detects whether the `specs` sources this crate links against carry the C10
// yield hook (hooks/c10_yield.patch): the `conc` domain is compiled only then,
// so the other domains keep building against an unpatched tree.
fn main() {
    let toml = std::fs::read_to_string("Cargo.toml").unwrap_or_default();
    let path = toml
        .split("path = \"")
        .nth(1)
        .and_then(|s| s.split('"').next())
        .unwrap_or("/repo")
        .to_string();
    let entity = format!("{}/src/world/entity.rs", path);
    println!("cargo:rerun-if-changed={}", entity);
    println!("cargo:rerun-if-changed=Cargo.toml");
    println!("cargo:rustc-check-cfg=cfg(has_verif_sched)");
    let src = std::fs::read_to_string(&entity).unwrap_or_default();
    if src.contains("pub mod verif_sched") {
        println!("cargo:rustc-cfg=has_verif_sched");
    }
}
