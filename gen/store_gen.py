"""Generators for the storage part of the `world` domain."""
import random
import world_gen as wg

INS, GET, GETM, REM, CONT, CNT, EMP, MSK, SLC, CLR, DRN, ENT, GMD = 30, 31, 32, 33, 34, 35, 36, 37, 38, 39, 40, 41, 42
REG, RREG, RREAD, SEMIT, DROPW = 50, 70, 71, 72, 99

wg.NAMES.update({30: "Insert", 31: "Get", 32: "GetMut", 33: "Remove", 34: "Contains", 35: "Count", 36: "IsEmpty",
                 37: "Mask", 38: "Slice", 39: "Clear", 40: "Drain", 41: "Entry", 42: "GetMutOrDefault",
                 50: "Register", 70: "RegReader", 71: "ReadEvents", 72: "SetEmission", 99: "DropWorld"})

SID_NAMES = ["Vec", "Dense", "Default", "HashMap", "BTree", "Null",
             "Flagged<Vec>", "Flagged<Dense>", "Flagged<Default>", "Flagged<HashMap>", "Flagged<BTree>",
             "DerefFlagged<Vec>", "DerefFlagged<Dense>", "DerefFlagged<Default>", "DerefFlagged<HashMap>",
             "DerefFlagged<BTree>"]
NULL_SID = 5
UNIT_SIDS = (5, 16, 17)       # zero-sized components: the null storage, and the null storage under both tracking wrappers
NSIDS = 18


class Gen:
    def __init__(self, rng, sids=None, events=True):
        self.rng = rng
        self.uid = 0
        self.nh = 0
        self.hist = []
        self.regs = []
        self.readers = {}
        self.live = []
        self.dead = []
        self.events = events
        self.sids = sids

    def tok(self, sid):
        if sid in UNIT_SIDS:
            return (0, 0)
        self.uid += 1
        return (self.uid, self.rng.randint(-50, 50))

    def comps(self, maxn=3):
        if not self.regs:
            return []
        k = self.rng.randint(0, min(maxn, len(self.regs)))
        out = []
        for sid in self.rng.sample(self.regs, k):
            u, v = self.tok(sid)
            out += [sid, u, v]
            if self.rng.random() < 0.08:
                # the same component type attached twice to one builder: the second value replaces the first
                u, v = self.tok(sid)
                out += [sid, u, v]
        return out

    def register(self, sid):
        # the path by which the storage is made known: register, register_with_storage, ReadStorage::setup,
        # WriteStorage::setup, or a plain resource insert followed by one of the two setups
        self.hist.append((REG, [sid] if self.rng.random() < 0.5 else [sid, self.rng.randint(0, 5)]))
        if sid not in self.regs:
            self.regs.append(sid)

    def handle(self, prefer_live=0.7):
        if self.nh == 0:
            return None
        r = self.rng.random()
        if self.live and r < prefer_live:
            return self.rng.choice(self.live)
        if self.dead and r < prefer_live + 0.2:
            return self.rng.choice(self.dead)
        return self.rng.randrange(self.nh)

    def created(self, n, alive=True):
        (self.live if alive else self.dead).extend(range(self.nh, self.nh + n))
        self.nh += n

    def creation(self):
        rng = self.rng
        k = rng.random()
        if k < 0.35:
            self.hist.append((wg.C, self.comps()))
            self.created(1)
        elif k < 0.45:
            self.hist.append((wg.CX, self.comps()))
            self.created(1, alive=False)
        elif k < 0.6:
            n = rng.randint(1, 4)
            self.hist.append((wg.CI, [n]))
            self.created(n)
        elif k < 0.75:
            self.hist.append((wg.EC, []))
            self.created(1)
        elif k < 0.85:
            n = rng.randint(1, 3)
            self.hist.append((wg.ECI, [n]))
            self.created(n)
        else:
            b = rng.randint(0, 1)
            self.hist.append((wg.EB, [b] + self.comps()))
            self.created(1, alive=bool(b))

    def deletion(self):
        rng = self.rng
        if self.nh == 0:
            return
        k = rng.random()
        if k < 0.35:
            h = self.handle(0.8)
            self.hist.append((wg.D, [h]))
            self.kill(h)
        elif k < 0.6:
            h = self.handle(0.8)
            self.hist.append((wg.ED, [h]))
            if h in self.live:
                self.live.remove(h)
                self.dead.append(h)
        elif k < 0.9:
            batch = [self.handle(0.85) for _ in range(rng.randint(1, 4))]
            if rng.random() < 0.6:
                batch = list(dict.fromkeys(batch))
            self.hist.append((wg.DM, batch))
            for h in batch:
                self.kill(h)
        else:
            self.hist.append((wg.DA, []))
            self.dead.extend(self.live)
            self.live = []

    def kill(self, h):
        if h in self.live:
            self.live.remove(h)
            self.dead.append(h)

    def storage_op(self):
        rng = self.rng
        if not self.regs:
            return
        sid = rng.choice(self.regs)
        h = self.handle()
        k = rng.random()
        if h is None:
            k = 0.99
        if k < 0.30:
            u, v = self.tok(sid)
            self.hist.append((INS, [sid, h, u, v]))
        elif k < 0.38:
            self.hist.append((GET, [sid, h]))
        elif k < 0.48:
            touch, write = rng.randint(0, 1), rng.randint(0, 1)
            self.hist.append((GETM, [sid, h, touch, write, rng.randint(-50, 50) if sid not in UNIT_SIDS else 0]))
        elif k < 0.60:
            self.hist.append((REM, [sid, h]))
        elif k < 0.64:
            self.hist.append((CONT, [sid, h]))
        elif k < 0.76:
            sub = rng.randint(0, 4)
            u, v = self.tok(sid) if sub in (1, 2) else (0, rng.randint(-50, 50) if sid not in UNIT_SIDS else 0)
            self.hist.append((ENT, [sid, h, sub, u, v]))
        elif k < 0.82:
            self.hist.append((GMD, [sid, h]))
        elif k < 0.86:
            self.hist.append((rng.choice([CNT, EMP, MSK]), [sid]))
        elif k < 0.90:
            self.hist.append((SLC, [sid]))
        elif k < 0.93:
            self.hist.append((DRN, [sid] if rng.random() < 0.5 else [sid, rng.randint(0, 3)]))
        elif k < 0.95:
            self.hist.append((CLR, [sid]))
        else:
            self.hist.append((rng.choice([CNT, MSK]), [sid]))

    def event_op(self):
        rng = self.rng
        tracked = [s for s in self.regs if s >= 6]
        if not tracked:
            return
        sid = rng.choice(tracked)
        k = rng.random()
        if k < 0.3 or sid not in self.readers:
            self.hist.append((RREG, [sid]))
            self.readers[sid] = self.readers.get(sid, 0) + 1
        elif k < 0.9:
            self.hist.append((RREAD, [sid, rng.randrange(self.readers[sid])]))
        else:
            self.hist.append((SEMIT, [sid, rng.randint(0, 1)]))


def random_store_history(rng, length, sids=None, drop_world=True, clear_ok=True):
    g = Gen(rng)
    pool = sids if sids is not None else list(range(NSIDS))
    nreg = rng.randint(1, min(4, len(pool)))
    first = rng.sample(pool, nreg)
    for sid in first[: max(1, nreg - 1)]:
        g.register(sid)
    late = first[max(1, nreg - 1):]
    while len(g.hist) < length:
        r = rng.random()
        if late and r < 0.03:
            g.register(late.pop())
        elif g.nh == 0 or r < 0.17:
            g.creation()
        elif r < 0.30:
            g.deletion()
        elif r < 0.37:
            g.hist.append((wg.M, []))
            g.dead.extend([])
        elif r < 0.42:
            g.hist.append((wg.PROBE, []))
        elif r < 0.52:
            g.event_op()
        else:
            g.storage_op()
            if not clear_ok and g.hist[-1][0] == CLR:
                g.hist.pop()
    # final reads of every reader and masks, then drop the world
    for sid, n in sorted(g.readers.items()):
        for k in range(n):
            g.hist.append((RREAD, [sid, k]))
    for sid in g.regs:
        g.hist.append((MSK, [sid]))
    if drop_world:
        g.hist.append((DROPW, []))
    return g.hist


def stale_history(rng, sids=None):
    """C03: produce stale handles (index reused zero, one or many times; reuse merged or not),
    then drive every handle-taking access path through every handle, dead ones included,
    reading the current occupant before and after."""
    g = Gen(rng)
    pool = sids if sids is not None else list(range(NSIDS))
    for sid in rng.sample(pool, rng.randint(1, min(3, len(pool)))):
        g.register(sid)
    n0 = rng.randint(1, 4)
    for _ in range(n0):
        g.hist.append((wg.C, g.comps(3)))
        g.created(1)
    rounds = rng.randint(1, 4)
    for _ in range(rounds):
        # kill some, by a random path
        for h in list(g.live):
            if rng.random() < 0.6:
                path = rng.random()
                if path < 0.5:
                    g.hist.append((wg.D, [h]))
                elif path < 0.8:
                    g.hist.append((wg.ED, [h]))
                    if rng.random() < 0.7:
                        g.hist.append((wg.M, []))
                else:
                    g.hist.append((wg.DM, [h]))
                g.kill(h)
        if rng.random() < 0.5:
            g.hist.append((wg.M, []))
        # reuse the indices: merged (world-level) or unmerged (through the entities resource)
        for _ in range(rng.randint(1, 3)):
            k = rng.random()
            if k < 0.5:
                g.hist.append((wg.C, g.comps(3)))
            elif k < 0.8:
                g.hist.append((wg.EB, [1] + g.comps(3)))
            else:
                g.hist.append((wg.EC, []))
            g.created(1)
        if rng.random() < 0.4:
            g.hist.append((wg.M, []))
    g.hist.append((wg.PROBE, []))
    # the probe matrix
    handles = list(range(g.nh))
    rng.shuffle(handles)
    for h in handles[:6]:
        for sid in g.regs:
            occupant = [(GET, [sid, x]) for x in range(g.nh)]
            paths = [(GET, [sid, h]), (CONT, [sid, h]), (GETM, [sid, h, 1, 1, 77 if sid not in UNIT_SIDS else 0]),
                     (REM, [sid, h]), (GMD, [sid, h])]
            u, v = g.tok(sid)
            paths.append((INS, [sid, h, u, v]))
            for sub in range(5):
                u, v = g.tok(sid) if sub in (1, 2) else (0, 5 if sid not in UNIT_SIDS else 0)
                paths.append((ENT, [sid, h, sub, u, v]))
            rng.shuffle(paths)
            for p in paths[: rng.randint(3, len(paths))]:
                g.hist.append(p)
            g.hist.extend(rng.sample(occupant, min(len(occupant), 3)))
            g.hist.append((MSK, [sid]))
    g.hist.append((DROPW, []))
    return g.hist


def map_history(rng, length, sids=None):
    """C04: storage operations with high remove / re-insert rates, removal from the middle,
    interleaved entry / drain / clear, slices; few deletions."""
    g = Gen(rng)
    pool = sids if sids is not None else list(range(NSIDS))
    for sid in rng.sample(pool, rng.randint(1, min(3, len(pool)))):
        g.register(sid)
    n = rng.randint(2, 10)
    g.hist.append((wg.CI, [n]))
    g.created(n)
    if rng.random() < 0.3:
        # far-apart indices: many entities, most of them deleted again
        big = rng.choice([70, 130, 300])
        g.hist.append((wg.CI, [big]))
        g.created(big)
        victims = rng.sample(range(n, n + big), big - 4)
        g.hist.append((wg.DM, victims))
        for v in victims:
            g.kill(v)
    while len(g.hist) < length:
        r = rng.random()
        if r < 0.06:
            g.creation()
        elif r < 0.10:
            g.deletion()
        elif r < 0.13:
            g.hist.append((wg.M, []))
        elif r < 0.18:
            g.event_op()
        else:
            g.storage_op()
    for sid in g.regs:
        g.hist.append((SLC, [sid]))
        g.hist.append((MSK, [sid]))
    g.hist.append((DROPW, []))
    return g.hist


def purge_history(rng, nsids=None):
    """C05: creations with components, insertions, every deletion path (immediate, deferred, batch
    with a failing element, delete_all, dropped builders), observation of every storage after every
    deletion and after every creation that follows (the inherited-component symptom needs a reuse)."""
    g = Gen(rng)
    n = nsids if nsids is not None else rng.choice([1, 2, 3, 5, 16])
    sids = rng.sample(range(NSIDS), n)
    early = sids[: max(1, n - rng.randint(0, min(2, n - 1)))]
    late = sids[len(early):]
    for sid in early:
        g.register(sid)

    def observe(handles=None):
        for sid in g.regs:
            g.hist.append((MSK, [sid]))
        hs = handles if handles is not None else (rng.sample(range(g.nh), min(g.nh, 3)) if g.nh else [])
        for h in hs:
            for sid in rng.sample(g.regs, min(len(g.regs), 3)):
                g.hist.append((rng.choice([GET, CONT]), [sid, h]))

    for _ in range(rng.randint(2, 6)):
        g.hist.append((wg.C, g.comps(4)))
        g.created(1)
    rounds = rng.randint(2, 5)
    for _ in range(rounds):
        if late and rng.random() < 0.5:
            g.register(late.pop())
        # some inserts
        for _ in range(rng.randint(0, 4)):
            if g.live:
                sid = rng.choice(g.regs)
                u, v = g.tok(sid)
                g.hist.append((INS, [sid, rng.choice(g.live), u, v]))
        # a deletion by a random path
        k = rng.random()
        if k < 0.2 and g.live:
            h = rng.choice(g.live)
            g.hist.append((wg.D, [h]))
            g.kill(h)
        elif k < 0.4 and g.live:
            h = rng.choice(g.live)
            g.hist.append((wg.ED, [h]))
            g.kill(h)
            if rng.random() < 0.8:
                g.hist.append((wg.M, []))
        elif k < 0.7 and g.live:
            batch = rng.sample(g.live, min(len(g.live), rng.randint(1, 3)))
            if rng.random() < 0.5:
                bad = rng.choice(g.dead) if (g.dead and rng.random() < 0.5) else batch[0]
                batch.insert(rng.randint(1, len(batch)), bad)
            g.hist.append((wg.DM, batch))
            # the handles after a failing element stay alive: recompute pessimistically
            seen = []
            for h in batch:
                if h in g.dead or h in seen:
                    break
                seen.append(h)
            for h in seen:
                g.kill(h)
        elif k < 0.8:
            g.hist.append((wg.DA, []))
            g.dead.extend(g.live)
            g.live = []
        elif k < 0.9:
            g.hist.append((wg.CX, g.comps(3)))
            g.created(1, alive=False)
            g.hist.append((wg.M, []))
        else:
            g.hist.append((wg.EB, [0] + g.comps(3)))
            g.created(1, alive=False)
            g.hist.append((wg.M, []))
        observe()
        # creations that reuse the freed indices
        new = []
        for _ in range(rng.randint(1, 3)):
            kk = rng.random()
            if kk < 0.5:
                g.hist.append((wg.C, []))
            elif kk < 0.8:
                g.hist.append((wg.EC, []))
            else:
                g.hist.append((wg.CI, [1]))
            new.append(g.nh)
            g.created(1)
        observe(new)
        if rng.random() < 0.4:
            g.hist.append((wg.M, []))
        if g.dead and rng.random() < 0.35:
            # deferred deletion requested through handles that are dead by now (their indices may have new occupants
            # with components): must be refused and must purge nothing at the next maintain
            for h in rng.sample(g.dead, min(len(g.dead), rng.randint(1, 2))):
                g.hist.append((wg.ED, [h]))
            for _ in range(rng.randint(0, 2)):
                if g.live:
                    sid = rng.choice(g.regs)
                    u, v = g.tok(sid)
                    g.hist.append((INS, [sid, rng.choice(g.live), u, v]))
            g.hist.append((wg.M, []))
            observe()
    g.hist.append((DROPW, []))
    return g.hist


def far_history(rng, sid, base=262144):
    """indices straddling the top layer boundary of the hierarchical bit set (64^3), reached with
    genuinely live entities"""
    g = Gen(rng)
    g.register(sid)
    n = base + rng.randint(3, 9)
    g.hist.append((wg.CI, [n]))
    g.created(n)
    picks = [0, 63, 64, 4095, 4096, base - 1, base, base + 1, n - 1] + [rng.randrange(n) for _ in range(4)]
    rng.shuffle(picks)
    for h in picks:
        u, v = g.tok(sid)
        g.hist.append((INS, [sid, h, u, v]))
        if rng.random() < 0.3:
            g.hist.append((CNT, [sid]))
    g.hist.append((CNT, [sid]))
    g.hist.append((MSK, [sid]))
    for h in rng.sample(picks, 5):
        g.hist.append((rng.choice([GET, REM, CONT]), [sid, h]))
        g.hist.append((CNT, [sid]))
    if sid % 5 != 2 and sid < 6:      # no slice dump of a 262k-cell default-filled vector
        g.hist.append((SLC, [sid]))
    g.hist.append((MSK, [sid]))
    g.hist.append((DRN, [sid]))
    g.hist.append((EMP, [sid]))
    return g.hist


def events_history(rng, length):
    """C12: the ten wrapped storages, readers registered early and read often, every removal path,
    emission toggled at random points, no bulk clear."""
    g = Gen(rng)
    sids = rng.sample(range(6, NSIDS), rng.randint(1, 3))
    for sid in sids:
        g.register(sid)
        for _ in range(rng.randint(1, 2)):
            g.hist.append((RREG, [sid]))
            g.readers[sid] = g.readers.get(sid, 0) + 1
    while len(g.hist) < length:
        r = rng.random()
        if g.nh == 0 or r < 0.14:
            g.creation()
        elif r < 0.26:
            g.deletion()
        elif r < 0.32:
            g.hist.append((wg.M, []))
        elif r < 0.50:
            sid = rng.choice(sids)
            k = rng.random()
            if k < 0.75:
                g.hist.append((RREAD, [sid, rng.randrange(g.readers[sid])]))
            elif k < 0.85:
                g.hist.append((RREG, [sid]))
                g.readers[sid] += 1
            else:
                g.hist.append((SEMIT, [sid, rng.randint(0, 1)]))
        else:
            g.storage_op()
            if g.hist[-1][0] == CLR:
                g.hist.pop()
    for sid in sids:
        for k in range(g.readers[sid]):
            g.hist.append((RREAD, [sid, k]))
        g.hist.append((MSK, [sid]))
    g.hist.append((DROPW, []))
    return g.hist


LINS, LINSALL, LREM, LEXEC = 60, 61, 62, 63
wg.NAMES.update({60: "LazyInsert", 61: "LazyInsertAll", 62: "LazyRemove", 63: "LazyExec"})


def encode_ops(ops):
    out = []
    for code, p in ops:
        out += [code, len(p)] + list(p)
    return out


def lazy_history(rng, length, sids=None):
    """C09: lazy inserts, batch inserts, removes, closures (nested up to depth 3, creating / deleting
    entities, queueing further closures) and lazy builders, interleaved with direct operations, over
    several maintains; targets that die in the same frame; deferred creations on reused indices."""
    g = Gen(rng)
    pool = sids if sids is not None else list(range(NSIDS))
    for sid in rng.sample(pool, rng.randint(1, min(3, len(pool)))):
        g.register(sid)
    g.hist.append((wg.CI, [rng.randint(1, 4)]))
    g.created(g.hist[-1][1][0])

    def simple_op():
        """an operation a closure may run (and that the top level may run too)"""
        sid = rng.choice(g.regs)
        h = g.handle()
        k = rng.random()
        if k < 0.25:
            u, v = g.tok(sid)
            return (INS, [sid, h, u, v])
        if k < 0.35:
            return (REM, [sid, h])
        if k < 0.45:
            return (GET, [sid, h])
        if k < 0.55:
            op = (wg.C, g.comps(2))
            g.created(1)
            return op
        if k < 0.62:
            op = (wg.EC, [])
            g.created(1)
            return op
        if k < 0.72:
            h2 = g.handle(0.8)
            g.kill(h2)
            return (rng.choice([wg.D, wg.ED]), [h2])
        if k < 0.80:
            return (MSK, [sid])
        if k < 0.88:
            u, v = g.tok(sid)
            return (LINS, [sid, h, u, v])
        if k < 0.93:
            return (LREM, [sid, h])
        return (wg.PROBE, [])

    def closure(depth):
        ops = []
        for _ in range(rng.randint(1, 4)):
            if depth < 3 and rng.random() < 0.25:
                ops.append((LEXEC, encode_ops(closure(depth + 1))))
            else:
                ops.append(simple_op())
        return ops

    while len(g.hist) < length:
        r = rng.random()
        sid = rng.choice(g.regs)
        if r < 0.14:
            h = g.handle()
            u, v = g.tok(sid)
            g.hist.append((LINS, [sid, h, u, v]))
        elif r < 0.20:
            items = []
            for _ in range(rng.randint(1, 3)):
                u, v = g.tok(sid)
                items += [g.handle(), u, v]
            g.hist.append((LINSALL, [sid] + items))
        elif r < 0.27:
            g.hist.append((LREM, [sid, g.handle()]))
        elif r < 0.42:
            g.hist.append((LEXEC, encode_ops(closure(1))))
        elif r < 0.50:
            g.hist.append((wg.LC, g.comps(3)))
            g.created(1)
        elif r < 0.66:
            g.hist.append((wg.M, []))
        elif r < 0.72:
            g.deletion()
        elif r < 0.78:
            g.creation()
        else:
            g.hist.append(simple_op())
    g.hist.append((wg.M, []))
    for sid in g.regs:
        g.hist.append((MSK, [sid]))
    g.hist.append((wg.PROBE, []))
    g.hist.append((wg.M, []))
    g.hist.append((DROPW, []))
    return g.hist


def lazy_chain_history(rng):
    """C09 with deep cascades: closures that queue closures that queue closures ..., 5 to 12 levels deep (a queue
    worked off in a bounded number of passes, or by a bounded recursion, loses the tail), several chains queued side by
    side so that the levels interleave; every level writes or removes a cell, creates an entity or requests a deletion,
    and the last level's effect is looked up after the one maintain."""
    g = Gen(rng)
    for sid in rng.sample(range(NSIDS), rng.randint(1, 2)):
        g.register(sid)
    n = rng.randint(2, 4)
    g.hist.append((wg.CI, [n]))
    g.created(n)

    def level_ops():
        ops = []
        for _ in range(rng.randint(1, 2)):
            sid = rng.choice(g.regs)
            k = rng.random()
            if k < 0.5:
                u, v = g.tok(sid)
                ops.append((rng.choice([INS, LINS]), [sid, rng.randrange(n), u, v]))
            elif k < 0.7:
                ops.append((rng.choice([REM, LREM]), [sid, rng.randrange(n)]))
            elif k < 0.85:
                ops.append((wg.C, g.comps(2)))
                g.created(1)
            else:
                ops.append((wg.EC, []))
                g.created(1)
        return ops

    def chain(depth):
        ops = level_ops()
        if depth > 1:
            ops.insert(rng.randint(0, len(ops)), (LEXEC, encode_ops(chain(depth - 1))))
        return ops

    for _ in range(rng.randint(1, 3)):
        for _ in range(rng.randint(1, 4)):
            g.hist.append((LEXEC, encode_ops(chain(rng.randint(5, 12)))))
            if rng.random() < 0.3:
                g.hist += level_ops()
        g.hist.append((wg.M, []))
        g.hist.append((wg.PROBE, []))
        for sid in g.regs:
            g.hist.append((MSK, [sid]))
            for h in range(n):
                g.hist.append((GET, [sid, h]))
    g.hist.append((wg.M, []))
    g.hist.append((wg.PROBE, []))
    g.hist.append((DROPW, []))
    return g.hist


def lazy_flood_history(rng):
    """C09 with a long queue: several hundred actions pending at one maintain (more than any fixed-size buffer a queue
    might start with: 256, 512), among them early closures that queue further actions; actions before and after the
    256th / 512th position and the nested ones write and remove the same few cells, so the order in which everything
    ran is visible in what is left"""
    g = Gen(rng)
    for sid in rng.sample(range(NSIDS), rng.randint(1, 2)):
        g.register(sid)
    n = rng.randint(2, 4)
    g.hist.append((wg.CI, [n]))
    g.created(n)
    total = rng.choice([250, 257, 260, 300, 513, 520])

    def cell_op():
        sid = rng.choice(g.regs)
        h = rng.randrange(n)
        if rng.random() < 0.75:
            u, v = g.tok(sid)
            return (LINS, [sid, h, u, v])
        return (LREM, [sid, h])

    early = sorted(rng.sample(range(0, 12), rng.randint(1, 3)))
    for k in range(total):
        if k in early:
            prog = [cell_op() for _ in range(rng.randint(1, 3))]
            if rng.random() < 0.3:
                prog.append((LEXEC, encode_ops([cell_op()])))
            g.hist.append((LEXEC, encode_ops(prog)))
        else:
            g.hist.append(cell_op())
    g.hist.append((wg.M, []))
    for sid in g.regs:
        g.hist.append((MSK, [sid]))
        for h in range(n):
            g.hist.append((GET, [sid, h]))
    g.hist.append((wg.M, []))
    g.hist.append((DROPW, []))
    return g.hist


def lazy_purge_history(rng):
    """C05 through maintain: deferred deletions of entities that own components, and closures queued in
    the same frame which create entities (taking the indices the merge has just freed), insert for them
    and look them up; everything is observed after the maintain."""
    g = Gen(rng)
    for sid in rng.sample(range(NSIDS), rng.randint(1, 3)):
        g.register(sid)
    for _ in range(rng.randint(1, 4)):
        g.hist.append((wg.C, g.comps(3)))
        g.created(1)
    for _ in range(rng.randint(1, 3)):
        victims = rng.sample(g.live, rng.randint(1, len(g.live))) if g.live else []
        for h in victims:
            g.hist.append((wg.ED, [h]))
            g.kill(h)
        if rng.random() < 0.5:
            # an entity built lazily with components and deleted again before the maintain that would attach them
            g.hist.append((wg.LC, g.comps(2)))
            doomed = g.nh
            g.created(1)
            g.hist.append((rng.choice([wg.D, wg.ED]), [doomed]))
            g.kill(doomed)
        prog = []
        first_new = g.nh
        for _ in range(rng.randint(1, 3)):
            prog.append((wg.C, g.comps(2)) if rng.random() < 0.6 else (wg.EC, []))
            g.created(1)
        for h in range(first_new, g.nh):
            for sid in g.regs:
                prog.append((GET, [sid, h]))
        if rng.random() < 0.5:
            sid = rng.choice(g.regs)
            u, v = g.tok(sid)
            prog.append((INS, [sid, rng.randrange(first_new, g.nh), u, v]))
        if rng.random() < 0.5:
            # a deferred insertion queued by the closure for an entity it has just created (performed later in the
            # same maintain, when the entity - if created through the entities resource - is not merged yet)
            sid = rng.choice(g.regs)
            u, v = g.tok(sid)
            prog.append((LINS, [sid, rng.randrange(first_new, g.nh), u, v]))
        doomed_in_closure = None
        if g.live and rng.random() < 0.5:
            # the closure itself requests the deferred deletion of an entity that owns components: it dies (and is
            # purged) at the maintain after this one
            doomed_in_closure = rng.choice(g.live)
            prog.insert(rng.randint(0, len(prog)), (wg.ED, [doomed_in_closure]))
        g.hist.append((LEXEC, encode_ops(prog)))
        if rng.random() < 0.3 and g.live:
            sid = rng.choice(g.regs)
            u, v = g.tok(sid)
            g.hist.append((LINS, [sid, rng.choice(g.live), u, v]))
        g.hist.append((wg.M, []))
        for sid in g.regs:
            g.hist.append((MSK, [sid]))
        for h in range(first_new, g.nh):
            for sid in g.regs:
                g.hist.append((GET, [sid, h]))
        if doomed_in_closure is not None:
            g.kill(doomed_in_closure)
            g.hist.append((wg.PROBE, []))
            g.hist.append((wg.M, []))
            for sid in g.regs:
                g.hist.append((MSK, [sid]))
            g.hist.append((wg.C, []))
            for sid in g.regs:
                g.hist.append((GET, [sid, g.nh]))
            g.created(1)
    g.hist.append((wg.PROBE, []))
    g.hist.append((DROPW, []))
    return g.hist


def mid_history(rng, sids=None):
    """indices on both sides of the second layer boundary of the hierarchical bit set (64^2 = 4096), reached with
    genuinely live entities: inserts, removals (every path), deletions (immediate, deferred, batch), reuse of the
    freed indices, with every storage observed after each step"""
    g = Gen(rng)
    pool = sids if sids is not None else rng.sample(range(NSIDS), rng.randint(1, 3))
    for sid in pool:
        g.register(sid)
    n = 4096 + rng.randint(3, 120)
    g.hist.append((wg.CI, [n]))
    g.created(n)
    picks = list(dict.fromkeys([0, 63, 64, 4094, 4095, 4096, 4097, n - 1] + [rng.randrange(4000, n) for _ in range(5)] +
                               [rng.randrange(n) for _ in range(3)]))
    rng.shuffle(picks)
    for h in picks:
        for sid in pool:
            if rng.random() < 0.8:
                u, v = g.tok(sid)
                g.hist.append((INS, [sid, h, u, v]))
    for sid in pool:
        g.hist.append((MSK, [sid]))
    for h in rng.sample(picks, min(len(picks), 6)):
        sid = rng.choice(pool)
        k = rng.random()
        if k < 0.3:
            g.hist.append((REM, [sid, h]))
        elif k < 0.45:
            g.hist.append((ENT, [sid, h, 3, 0, 0]))
        elif k < 0.6:
            g.hist.append((wg.D, [h]))
            g.kill(h)
        elif k < 0.75:
            g.hist.append((wg.ED, [h]))
            g.kill(h)
            g.hist.append((wg.M, []))
        elif k < 0.9:
            batch = [x for x in rng.sample(picks, min(len(picks), 3)) if x in g.live]
            if batch:
                g.hist.append((wg.DM, batch))
                for x in batch:
                    g.kill(x)
        else:
            g.hist.append((DRN, [sid, rng.randint(0, 3)]))
        for s2 in pool:
            g.hist.append((rng.choice([MSK, CNT]), [s2]))
        for x in rng.sample(picks, 3):
            g.hist.append((GET, [rng.choice(pool), x]))
    # reuse of the freed indices
    for _ in range(rng.randint(1, 4)):
        g.hist.append((rng.choice([wg.C, wg.EC]), []))
        g.created(1)
        for s2 in pool:
            g.hist.append((GET, [s2, g.nh - 1]))
    for s2 in pool:
        g.hist.append((MSK, [s2]))
    g.hist.append((DROPW, []))
    return g.hist


def atomic_frame_history(rng):
    """entities created through the shared Entities resource (on fresh and on recycled indices), given components
    directly, observed through every read path, deleted again (deferred, immediate, in failing batches) before and
    after the maintain that merges them"""
    g = Gen(rng)
    pool = rng.sample(range(NSIDS), rng.randint(1, 3))
    for sid in pool:
        g.register(sid)
    for _ in range(rng.randint(1, 4)):
        g.hist.append((wg.C, g.comps(3)))
        g.created(1)
    for _ in range(rng.randint(1, 3)):
        # free an index (merged), then create atomically on it
        if g.live and rng.random() < 0.8:
            h = rng.choice(g.live)
            g.hist.append((rng.choice([wg.D, wg.ED]), [h]))
            g.kill(h)
            g.hist.append((wg.M, []))
        new = []
        for _ in range(rng.randint(1, 3)):
            g.hist.append((rng.choice([wg.EC, wg.EB]), [] if g.hist and False else []))
            if g.hist[-1][0] == wg.EB:
                g.hist[-1] = (wg.EB, [1] + g.comps(2))
            new.append(g.nh)
            g.created(1)
        for h in new:
            for sid in pool:
                if rng.random() < 0.7:
                    u, v = g.tok(sid)
                    g.hist.append((INS, [sid, h, u, v]))
        for h in new:
            for sid in pool:
                g.hist.append((rng.choice([GET, CONT, GMD]), [sid, h]))
                g.hist.append((GET, [sid, h]))
        for sid in pool:
            g.hist.append((MSK, [sid]))
        # delete some of them in the same frame
        for h in new:
            k = rng.random()
            if k < 0.3:
                g.hist.append((wg.ED, [h]))
                g.kill(h)
            elif k < 0.4:
                g.hist.append((wg.D, [h]))
                g.kill(h)
            elif k < 0.5 and g.dead:
                g.hist.append((wg.DM, [h, rng.choice(g.dead)]))      # fails on the second element
                g.kill(h)
        if rng.random() < 0.3 and g.dead:
            # a pending deferred delete inside the killed prefix of a failing batch, then reuse
            live = [x for x in g.live]
            if live:
                a = rng.choice(live)
                g.hist.append((wg.ED, [a]))
                g.hist.append((wg.DM, [a, rng.choice(g.dead)]))
                g.kill(a)
                g.hist.append((wg.C, g.comps(3)))
                g.created(1)
        g.hist.append((wg.M, []))
        for sid in pool:
            g.hist.append((MSK, [sid]))
            g.hist.append((CNT, [sid]))
        for _ in range(rng.randint(1, 2)):
            g.hist.append((wg.C, []))
            g.created(1)
            for sid in pool:
                g.hist.append((GET, [sid, g.nh - 1]))
    g.hist.append((wg.PROBE, []))
    g.hist.append((DROPW, []))
    return g.hist
