"""Generators for the `unwind` domain (property C19: a panicking component destructor).

A history is a list of operations (code, [args]) in the format of harness/src/unwind.rs /
coq/theories/Unwind/UWorld.v (`dec_uop`), encoded as integers `code n x1..xn`.

Generation is in two stages (see lib/svlib/unwind_check.py): `base_scenarios` builds fault-free
histories covering every storage kind x every destroying operation x content shapes; the check runs
them once on the implementation to learn how many destructor calls every destroying operation makes,
then `fault_variants` arms the fault before one such operation at every position 1..n and n+1 (beyond
the last: no panic), and `second_fault_variants` arms a second fault before a later operation."""
import random

REG, CREATE, ARM, CLEAR, REMOVE, INSERT = 50, 1, 2, 39, 33, 30
DELETE, DELETE_MANY, DELETE_ALL, EDELETE, MAINTAIN = 10, 11, 13, 12, 14
DROP_STORAGE, DROP_WORLD = 60, 99
MASK, GET, GET_ALL, JOIN, SLICE, COUNT, PROBE_ALL = 37, 31, 32, 80, 38, 35, 24
CS_NEW, CS_ADD, CS_CLEAR, CS_DUMP, CS_DROP = 81, 82, 85, 86, 87      # changeset histories (first op CS_NEW)

DESTROYING = {CLEAR, REMOVE, INSERT, DELETE, DELETE_MANY, DELETE_ALL, MAINTAIN, DROP_STORAGE, DROP_WORLD,
              CS_ADD, CS_CLEAR, CS_DROP}
OBSERVING = {MASK, GET, GET_ALL, JOIN, SLICE, COUNT, PROBE_ALL, CS_DUMP}

NAMES = {REG: "register", CREATE: "create", ARM: "arm_fault", CLEAR: "clear", REMOVE: "remove", INSERT: "insert",
         DELETE: "delete_entity", DELETE_MANY: "delete_entities", DELETE_ALL: "delete_all", EDELETE: "entities.delete",
         MAINTAIN: "maintain", DROP_STORAGE: "drop_storage", DROP_WORLD: "drop_world", MASK: "mask", GET: "get",
         GET_ALL: "get_all", JOIN: "join", SLICE: "slice", COUNT: "count", PROBE_ALL: "probe_all",
         CS_NEW: "changeset", CS_ADD: "changeset.add", CS_CLEAR: "changeset.clear", CS_DUMP: "changeset.join",
         CS_DROP: "changeset.drop"}

KINDS = ["Vec", "Dense", "Default", "HashMap", "BTree", "Null"]
SID_NAMES = (KINDS + ["Flagged<%s>" % k for k in KINDS[:5]] + ["DerefFlagged<%s>" % k for k in KINDS[:5]])
ALL_SIDS = list(range(16))


def kind_of(sid):
    return KINDS[sid] if sid < 6 else KINDS[(sid - 6) % 5]


def encode(h):
    out = []
    for code, args in h:
        out += [code, len(args)] + list(args)
    return " ".join(map(str, out))


def decode(line):
    xs = [int(t) for t in line.split()]
    h, i = [], 0
    while i + 1 < len(xs):
        code, n = xs[i], xs[i + 1]
        h.append((code, xs[i + 2:i + 2 + n]))
        i += 2 + n
    return h


def pretty(h):
    out = []
    for code, a in h:
        nm = NAMES.get(code, "op%d" % code)
        if code == CREATE:
            cs = ["%s:=(%d,%d)" % (SID_NAMES[a[i]] if 0 <= a[i] < 16 else a[i], a[i + 1], a[i + 2])
                  for i in range(0, len(a) - 2, 3)]
            out.append("create{%s}" % ", ".join(cs))
        elif code in (REG, CLEAR, DROP_STORAGE, MASK, GET_ALL, JOIN, SLICE, COUNT):
            out.append("%s(%s)" % (nm, SID_NAMES[a[0]] if a and 0 <= a[0] < 16 else a))
        elif code in (REMOVE, GET):
            out.append("%s(%s, h%d)" % (nm, SID_NAMES[a[0]] if 0 <= a[0] < 16 else a[0], a[1]))
        elif code == INSERT:
            out.append("insert(%s, h%d, (%d,%d))" % (SID_NAMES[a[0]] if 0 <= a[0] < 16 else a[0], a[1], a[2], a[3]))
        elif code in (DELETE, EDELETE):
            out.append("%s(h%d)" % (nm, a[0]))
        elif code == DELETE_MANY:
            out.append("delete_entities(%s)" % ", ".join("h%d" % x for x in a))
        elif code == ARM:
            out.append("arm_fault(%d)" % a[0])
        elif code == CS_ADD:
            out.append("changeset.add(h%d, (%d,%d))" % (a[0], a[1], a[2]))
        else:
            out.append(nm)
    return "; ".join(out)


class Builder:
    """writes a well-formed history; keeps a fault-free picture of the world (which handle is alive,
    which handle has a component where) only to choose meaningful arguments"""

    def __init__(self, rng, uid0=100):
        self.rng = rng
        self.h = []
        self.uid = uid0
        self.nh = 0
        self.alive = []          # handle numbers believed alive
        self.comp = {}           # sid -> set of handles believed to own a component
        self.regs = []

    def fresh(self):
        self.uid += 1
        return self.uid

    def reg(self, sid):
        self.h.append((REG, [sid]))
        if sid not in self.regs:
            self.regs.append(sid)
            self.comp.setdefault(sid, set())

    def create(self, sids):
        args = []
        for s in sids:
            args += [s, self.fresh(), self.rng.randint(-9, 9)]
        self.h.append((CREATE, args))
        k = self.nh
        self.nh += 1
        self.alive.append(k)
        for s in sids:
            self.comp[s].add(k)
        return k

    def op(self, code, *args):
        self.h.append((code, list(args)))

    def insert(self, sid, hd):
        self.h.append((INSERT, [sid, hd, self.fresh(), self.rng.randint(-9, 9)]))
        if hd in self.alive:
            self.comp[sid].add(hd)

    def remove(self, sid, hd):
        self.h.append((REMOVE, [sid, hd]))
        self.comp[sid].discard(hd)

    def kill(self, hs):
        for x in hs:
            if x in self.alive:
                self.alive.remove(x)
            for s in self.comp:
                self.comp[s].discard(x)

    def observe(self, sids=None, light=False):
        for s in (sids if sids is not None else self.regs):
            self.op(MASK, s)
            self.op(GET_ALL, s)
            if not light:
                self.op(JOIN, s)
                self.op(SLICE, s)
                self.op(COUNT, s)
        self.op(PROBE_ALL)


def populate(b, target, others, shape):
    """entities with components in `target` (and some in `others`), contents shaped by `shape`"""
    rng = b.rng
    n = {"single": 1, "dense": rng.randint(3, 6), "sparse": rng.randint(4, 8), "empty": rng.randint(1, 3),
         "crowd": rng.randint(33, 44)}[shape]
    hs = []
    for i in range(n):
        if shape == "empty":
            has = False
        elif shape == "sparse":
            has = (i % 2 == 1) or rng.random() < 0.25
        else:
            has = True
        sids = ([target] if has else []) + [s for s in others if rng.random() < 0.6]
        rng.shuffle(sids)
        hs.append(b.create(sids))
    if shape == "sparse" and rng.random() < 0.7:
        # holes made by removals and deletions (swap_remove in the dense storage, defaults in the default one)
        own = sorted(b.comp[target])
        if len(own) >= 2:
            b.remove(target, own[0])
        if len(b.alive) >= 3 and rng.random() < 0.5:
            victim = b.alive[rng.randrange(len(b.alive))]
            b.op(DELETE, victim)
            b.kill([victim])
            b.create([target] + [s for s in others if rng.random() < 0.5])     # reuses the index
    return hs


def destroying_op(b, kind, target, others):
    """append the destroying operation `kind` (the one the fault sweep aims at)"""
    rng = b.rng
    own = sorted(b.comp[target])
    if kind == "clear":
        b.op(CLEAR, target)
        b.comp[target] = set()
    elif kind == "remove":
        hd = rng.choice(own) if own else 0
        b.remove(target, hd)
    elif kind == "insert_over":
        hd = rng.choice(own) if own else 0
        b.insert(target, hd)
    elif kind == "insert_vacant":
        cands = [x for x in b.alive if x not in b.comp[target]]
        hd = rng.choice(cands) if cands else b.create([])
        b.insert(target, hd)
    elif kind == "insert_dead":
        if b.alive:
            victim = rng.choice(b.alive)
            b.op(DELETE, victim)
            b.kill([victim])
        else:
            victim = 0
        b.insert(target, victim)
    elif kind == "delete":
        hd = rng.choice(own) if own else (rng.choice(b.alive) if b.alive else 0)
        b.op(DELETE, hd)
        b.kill([hd])
    elif kind == "delete_many":
        pool = list(b.alive)
        rng.shuffle(pool)
        hs = pool[:max(1, min(len(pool), rng.randint(2, 4)))]
        if len(pool) >= 33:
            hs = pool[:rng.randint(32, len(pool))]       # one large batch
        b.op(DELETE_MANY, *hs)
        b.kill(hs)
    elif kind == "delete_many_failing":
        pool = list(b.alive)
        rng.shuffle(pool)
        hs = pool[:max(1, min(len(pool), rng.randint(2, 3)))]
        hs = hs + [hs[0]] + pool[3:4]            # a handle that is dead by then: the batch stops there
        b.op(DELETE_MANY, *hs)
        b.kill(hs[:hs.index(hs[0], 1)])
    elif kind == "delete_all":
        b.op(DELETE_ALL)
        b.kill(list(b.alive))
    elif kind == "maintain":
        pool = list(b.alive)
        rng.shuffle(pool)
        hs = pool[:max(1, min(len(pool), rng.randint(1, 4)))]
        if len(pool) >= 33:
            hs = pool[:rng.randint(32, len(pool))]
        for x in hs:
            b.op(EDELETE, x)
        b.op(MAINTAIN)
        b.kill(hs)
    elif kind == "drop_storage":
        b.op(DROP_STORAGE, target)
        b.comp[target] = set()
    elif kind == "drop_world":
        b.op(DROP_WORLD)
    else:
        raise ValueError(kind)


def churn(b, target):
    """components come and go in the target storage after the caught panic (index tables, cells and slots
    are reused in every order), with lookups in between"""
    rng = b.rng
    fresh = [b.create([target] + [s for s in b.regs if s != target and rng.random() < 0.3]) for _ in range(rng.randint(3, 5))]
    rng.shuffle(fresh)
    for k, hd in enumerate(fresh[:rng.randint(2, len(fresh))]):
        if rng.random() < 0.75:
            b.remove(target, hd)
        else:
            b.op(DELETE, hd)
            b.kill([hd])
        if k % 2 == 1 or rng.random() < 0.3:
            b.op(GET_ALL, target)
            b.op(JOIN, target)
    b.op(MASK, target)
    b.op(GET_ALL, target)
    b.op(JOIN, target)
    b.op(SLICE, target)


OP_KINDS = ["clear", "remove", "insert_over", "insert_vacant", "insert_dead", "delete", "delete_many",
            "delete_many_failing", "delete_all", "maintain", "drop_storage", "drop_world"]
SHAPES = ["dense", "sparse", "single", "empty"]


def scenario(rng, target, kind, shape, n_others=None, follow=True):
    """register, populate, destroying op on/through `target`, observe, follow-up mutations and a second
    destroying op, observe; the harness tears the world down at the end.  Returns (history, index of the
    destroying operation the scenario is about)"""
    b = Builder(rng, uid0=rng.randrange(1, 50) * 1000)
    return _scenario(b, rng, target, kind, shape, n_others, follow), b.target


def _scenario(b, rng, target, kind, shape, n_others, follow):
    n_others = rng.choice([0, 1, 2, 3]) if n_others is None else n_others
    others = rng.sample([s for s in ALL_SIDS if s != target], n_others)
    regs = [target] + others
    rng.shuffle(regs)
    for s in regs:
        b.reg(s)
    populate(b, target, others, shape)
    if rng.random() < 0.3:
        b.observe(light=True)
    before = len(b.h)
    destroying_op(b, kind, target, others)
    b.target = max(i for i in range(before, len(b.h)) if b.h[i][0] in DESTROYING)
    if kind == "drop_world":
        return b.h
    b.observe()
    if not follow:
        return b.h
    if kind == "drop_storage" and rng.random() < 0.7:
        b.reg(target)
    # the world goes on: new entities take over indices, components come back
    for _ in range(rng.randint(1, 3)):
        sids = [s for s in b.regs if rng.random() < 0.6]
        b.create(sids)
    if b.alive and rng.random() < 0.5:
        b.insert(target, rng.choice(b.alive))
    if target in b.regs and rng.random() < 0.7:
        churn(b, target)
    k2 = rng.choice(["clear", "delete_all", "delete", "drop_storage", "remove", "maintain", "delete_many", "clear"])
    t2 = rng.choice(b.regs)
    destroying_op(b, k2, t2, [s for s in b.regs if s != t2])
    b.observe(light=rng.random() < 0.5)
    if rng.random() < 0.35:
        b.op(DROP_WORLD)
    return b.h


def base_scenarios(rng, tier):
    """(label, history, target op index) triples: every storage id x every destroying operation, shapes rotated
    (quick) or all (thorough)"""
    out = []
    rot = 0
    for target in ALL_SIDS:
        for kind in OP_KINDS:
            shapes = SHAPES if tier == "thorough" else [SHAPES[rot % 3], SHAPES[(rot + 1) % 4]]
            rot += 1
            for shape in shapes:
                if shape == "empty" and kind in ("remove", "insert_over") and tier != "thorough":
                    shape = "dense"
                h, tpos = scenario(rng, target, kind, shape)
                out.append(("%s/%s/%s" % (SID_NAMES[target], kind, shape), h, tpos))
    # several storages of every kind in one world, so that delete_components and the teardown cross them
    for _ in range(40 if tier == "quick" else 300):
        kind = rng.choice(["delete", "delete_many", "delete_all", "maintain", "drop_world", "delete_many_failing"])
        target = rng.choice(ALL_SIDS)
        h, tpos = scenario(rng, target, kind, rng.choice(["dense", "sparse"]), n_others=rng.randint(3, 6))
        out.append(("cross/%s" % kind, h, tpos))
    # large batches (more than 32 entities deleted at once, by every batch path)
    for target in ([0, 1, 4, 6] if tier == "quick" else ALL_SIDS):
        for kind in ("delete_all", "delete_many", "maintain"):
            h, tpos = scenario(rng, target, kind, "crowd", n_others=rng.randint(0, 1))
            out.append(("crowd/%s/%s" % (SID_NAMES[target], kind), h, tpos))
    for _ in range(8 if tier == "quick" else 60):
        for kind in ("add", "clear", "drop"):
            h, tpos = cs_scenario(rng, kind)
            out.append(("changeset/%s" % kind, h, tpos))
    return out


def cs_scenario(rng, kind):
    """a ChangeSet holding values with destructors: adds (also onto present entries: `+=` destroys its
    argument), then the destroying operation `kind`, a dump, more adds, a second clear / drop"""
    uid = [rng.randrange(1, 50) * 1000]

    def fresh():
        uid[0] += 1
        return uid[0]

    n = rng.randint(1, 6)
    h = [(CS_NEW, [])] + [(CREATE, [])] * n
    present = []
    for _ in range(rng.randint(0 if kind == "add" else 1, 7)):
        e = rng.randrange(n)
        h.append((CS_ADD, [e, fresh(), rng.randint(-9, 9)]))
        present.append(e)
    if rng.random() < 0.3:
        h.append((CS_DUMP, []))
    if kind == "add":
        e = rng.choice(present) if present and rng.random() < 0.8 else rng.randrange(n)
        h.append((CS_ADD, [e, fresh(), rng.randint(-9, 9)]))
    elif kind == "clear":
        h.append((CS_CLEAR, []))
    else:
        h.append((CS_DROP, []))
    tpos = len(h) - 1
    h.append((CS_DUMP, []))
    for _ in range(rng.randint(1, 5)):
        h.append((CS_ADD, [rng.randrange(n), fresh(), rng.randint(-9, 9)]))
    h.append((CS_DUMP, []))
    h.append((rng.choice([CS_CLEAR, CS_DROP, CS_CLEAR]), []))
    h.append((CS_DUMP, []))
    if rng.random() < 0.5:
        h.append((CS_ADD, [rng.randrange(n), fresh(), 1]))
    return h, tpos


def destroying_positions(h):
    return [i for i, (code, _) in enumerate(h) if code in DESTROYING]


def with_fault(h, pos, k):
    return h[:pos] + [(ARM, [k])] + h[pos:]


def fault_positions(n, cap):
    """fault positions for an operation making n destructor calls: first, every middle, last, beyond the last;
    thinned to `cap` when n is large"""
    ks = list(range(1, n + 2))
    if len(ks) <= cap:
        return ks
    keep = {1, 2, n - 1, n, n + 1}
    step = max(1, (n - 2) // max(1, cap - 5))
    keep.update(range(3, n - 1, step))
    return sorted(keep)


def fault_variants(h, drops_per_op, cap=12, only=None):
    """drops_per_op[i] = number of destructor calls of operation i in the fault-free run.
    yields (pos, k, n, history) for every destroying operation (or only the one at index `only`)"""
    for pos in destroying_positions(h):
        if only is not None and pos != only:
            continue
        n = drops_per_op[pos] if pos < len(drops_per_op) else 0
        for k in fault_positions(n, cap):
            yield pos, k, n, with_fault(h, pos, k)


def strip_faults(h):
    return [op for op in h if op[0] != ARM]
