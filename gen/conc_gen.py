"""Generators for the `conc` domain (property C10).

A case = (setup, programs, schedule):
  setup    (nc, nd, nm): create nc entities, request deletion of the first nd,
           run nm maintains  ->  free list of nd entries when nm >= 1
  programs one list of ops per thread; an op is (code, arg):
           (1,0) create | (2,k) delete initial k | (3,k) delete own k
           (4,k) is_alive initial k | (5,k) is_alive own k | (6,q) lazy push q
  schedule list of thread indices (one entry = one atomic step of that thread)

Encoded on one line:  nc nd nm  T  n_1 (code arg)*n_1 ... n_T (...)  S s_1 .. s_S
(decoded by coq/theories/Checkers/ConcChk.v `dec_case` and harness/src/conc.rs).
Schedules are not invented here: the extracted Coq model enumerates them
(`driver conc-enum`).  All random choices derive from one random.Random(seed)."""
import itertools
import random

C = (1, 0)

NAMES = {1: "Create", 2: "Delete(init %d)", 3: "Delete(own %d)", 4: "IsAlive(init %d)", 5: "IsAlive(own %d)",
         6: "Push(%d)"}

# the three initial states of DESIGN.md section 5 (C10): empty free list, free
# list of 1, of 2; each with one entity alive (the last initial handle)
SETUPS = [(1, 0, 1), (2, 1, 1), (3, 2, 1)]
# deletion requests still pending when the phase starts (killed set not empty)
SETUP_PENDING = (2, 1, 0)


def encode_case(setup, progs, sched):
    out = list(setup) + [len(progs)]
    for p in progs:
        out.append(len(p))
        for code, arg in p:
            out += [code, arg]
    out.append(len(sched))
    out += list(sched)
    return " ".join(str(x) for x in out)


def decode_case(line):
    xs = [int(t) for t in line.split()]
    setup = tuple(xs[0:3])
    t = xs[3]
    i = 4
    progs = []
    for _ in range(t):
        n = xs[i]
        i += 1
        p = []
        for _ in range(n):
            p.append((xs[i], xs[i + 1]))
            i += 2
        progs.append(p)
    s = xs[i]
    sched = xs[i + 1:i + 1 + s]
    return setup, progs, sched


def pretty_op(op):
    code, arg = op
    nm = NAMES.get(code, "op%d" % code)
    return nm % arg if "%" in nm else nm


def pretty_case(setup, progs, sched):
    return "setup(create %d, delete %d, maintain %d); " % setup + " || ".join(
        "T%d: %s" % (k, ", ".join(pretty_op(o) for o in p)) for k, p in enumerate(progs)) + \
        "; schedule " + "".join(str(x) for x in sched)


def alphabet(setup, tid):
    """ops offered to thread `tid`: creation, deletion of a live initial handle, of the
    thread's first own handle, is_alive of both, a push with a unique id"""
    nc, nd, nm = setup
    live = nc - 1              # the last initial handle is alive in every setup used here
    ops = [C, (2, live), (3, 0), (5, 0), (4, live)]
    if nd > 0:
        ops.append((2, 0))     # a handle that is dead (nm >= 1) or pending deletion (nm = 0)
    return ops


def with_unique_pushes(progs):
    """push ids: thread * 100 + position, so that they are pairwise distinct"""
    out = []
    for t, p in enumerate(progs):
        out.append([(6, t * 100 + k) if code == 6 else (code, arg) for k, (code, arg) in enumerate(p)])
    return out


def program_tuples(setup, nthreads, nops, reduced):
    """all tuples of programs of exactly `nops` ops, one per thread, up to
    permutation of the threads.  `reduced`: the smaller alphabet (quick tier)."""
    per_thread = []
    ops = alphabet(setup, 0) + [(6, 0)]
    if reduced:
        ops = [o for o in ops if o[0] in (1, 2, 3, 6) and not (o[0] == 2 and o[1] == 0 and setup[0] > 1)]
    progs = [list(p) for p in itertools.product(ops, repeat=nops)]
    for tup in itertools.combinations_with_replacement(range(len(progs)), nthreads):
        yield with_unique_pushes([progs[i] for i in tup])


def random_programs(rng, setup, nthreads, max_ops):
    nc, nd, nm = setup
    progs = []
    for t in range(nthreads):
        n = rng.randint(1, max_ops)
        p, created = [], 0
        for k in range(n):
            r = rng.random()
            if r < 0.45 or created == 0 and r < 0.6:
                p.append(C)
                created += 1
            elif r < 0.6:
                p.append((3, rng.randrange(max(created, 1))))
            elif r < 0.7:
                p.append((2, rng.randrange(nc)) if nc else C)
            elif r < 0.8:
                p.append((5, rng.randrange(max(created, 1))))
            elif r < 0.88:
                p.append((4, rng.randrange(nc)) if nc else C)
            else:
                p.append((6, 0))
        progs.append(p)
    return with_unique_pushes(progs)


def random_schedule(rng, progs):
    """a random schedule, long enough for every program whatever the number of
    CAS retries (the executors drain unfinished threads anyway); bursts of random
    length so that both fine and coarse interleavings occur"""
    total = sum(len(p) for p in progs)
    length = total * 6 + 4
    n = len(progs)
    sched = []
    while len(sched) < length:
        t = rng.randrange(n + (1 if rng.random() < 0.05 else 0))     # now and then an out-of-range index
        sched += [t] * rng.choice([1, 1, 1, 2, 3, 5])
    return sched[:length]
