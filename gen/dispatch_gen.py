"""Generators for the `dispatch` domain (property C11).

A graph is a list of items:
  ("sys", time, [handle codes], [dependency ids])   ids are given in order of appearance, from 0
  ("barrier",)
  ("run", threads, rounds)
  ("probe", handle code)
handle codes: 0 Entities, 1 Read<LazyUpdate>, 10+t ReadStorage<C_t>, 20+t WriteStorage<C_t>.
Encoding: integers `code n x1..xn` per item (see coq/theories/Checkers/DispatchChk.v)."""
import itertools

NCOMP = 8
ALL_HANDLES = [0, 1] + [10 + t for t in range(NCOMP)] + [20 + t for t in range(NCOMP)]
POOLS = [1, 2, 3, 4, 6, 8, 12, 16, 24, 32]


def encode(g):
    out = []
    for it in g:
        if it[0] == "sys":
            _, t, hs, deps = it
            p = [t, len(hs)] + list(hs) + list(deps)
            out += [1, len(p)] + p
        elif it[0] == "barrier":
            out += [2, 0]
        elif it[0] == "run":
            out += [3, 2, it[1], it[2]]
        elif it[0] == "probe":
            out += [4, 1, it[1]]
        else:
            raise ValueError(it)
    return " ".join(map(str, out))


def decode(line):
    xs = [int(t) for t in line.split()]
    g, i = [], 0
    while i < len(xs):
        code, n = xs[i], xs[i + 1]
        p = xs[i + 2:i + 2 + n]
        i += 2 + n
        if code == 1:
            nh = p[1]
            g.append(("sys", p[0], p[2:2 + nh], p[2 + nh:]))
        elif code == 2:
            g.append(("barrier",))
        elif code == 3:
            g.append(("run", p[0], p[1]))
        elif code == 4:
            g.append(("probe", p[0]))
        else:
            raise ValueError("bad code %d" % code)
    return g


HNAMES = {0: "Entities", 1: "Read<LazyUpdate>"}
for _t in range(NCOMP):
    HNAMES[10 + _t] = "ReadStorage<C%d>" % _t
    HNAMES[20 + _t] = "WriteStorage<C%d>" % _t


def pretty(g):
    out, k = [], 0
    for it in g:
        if it[0] == "sys":
            out.append("s%d(time=%d; %s; after %s)" % (k, it[1], ", ".join(HNAMES.get(h, str(h)) for h in it[2]),
                                                    ["s%d" % d for d in it[3]]))
            k += 1
        elif it[0] == "barrier":
            out.append("barrier")
        elif it[0] == "run":
            out.append("run(threads=%d, rounds=%d)" % (it[1], it[2]))
        else:
            out.append("probe(%s)" % HNAMES.get(it[1], it[1]))
    return "; ".join(out)


def n_systems(g):
    return sum(1 for it in g if it[0] == "sys")


def probe_all():
    return [("probe", h) for h in ALL_HANDLES]


def random_handles(rng, ncomp, p_touch, p_write):
    hs = []
    for t in rng.sample(range(NCOMP), ncomp):
        if rng.random() < p_touch:
            hs.append((20 if rng.random() < p_write else 10) + t)
    if rng.random() < 0.3:
        hs.append(0)
    if rng.random() < 0.2:
        hs.append(1)
    rng.shuffle(hs)
    return hs


def random_graph(rng, n, style=None):
    """n systems; every component type at most once per system (a tuple naming one twice panics
    on its own fetch, outside the property)."""
    style = style or rng.choice(["mixed", "mixed", "narrow", "readers", "writers", "chain", "times"])
    ncomp = {"narrow": 2}.get(style, NCOMP)
    p_touch = {"narrow": 0.8, "readers": 0.5, "writers": 0.35, "chain": 0.3}.get(style, 0.4)
    p_write = {"readers": 0.12, "writers": 0.85}.get(style, 0.4)
    p_dep = {"chain": 0.8}.get(style, rng.choice([0.0, 0.15, 0.35]))
    p_bar = rng.choice([0.0, 0.0, 0.05, 0.15])
    g, k = [], 0
    for _ in range(n):
        if k > 0 and rng.random() < p_bar:
            g.append(("barrier",))
        hs = random_handles(rng, ncomp, p_touch, p_write)
        deps = []
        if k > 0 and rng.random() < p_dep:
            if style == "chain" and rng.random() < 0.7:
                deps = [k - 1]
            else:
                deps = rng.sample(range(k), min(k, rng.choice([1, 1, 2, 3])))
            if rng.random() < 0.05:
                deps.append(rng.choice(deps))          # the same name twice
        t = rng.choice([1, 2, 3, 3, 4, 5]) if style != "times" else rng.choice([1, 1, 2, 5])
        g.append(("sys", t, hs, deps))
        k += 1
    return g


def with_runs(rng, g, tier, npools=None, rounds=None):
    if tier == "quick":
        npools = npools or 3
        rounds = rounds or 4
    else:
        npools = npools or 4
        rounds = rounds or 25
    pools = rng.sample(POOLS, npools)
    return g + [("run", p, rounds) for p in sorted(pools)]


def forward_dep_graph(rng):
    """a dependency on a system that is not registered yet: the builder panics"""
    g = random_graph(rng, rng.randint(1, 5))
    k = n_systems(g)
    g.append(("sys", 3, random_handles(rng, NCOMP, 0.4, 0.4), [k + rng.randint(0, 2)]))
    return g


def enumerate_small(nsys=3):
    """all graphs of nsys systems over {Read C0, Write C0} x {nothing, Write C1} x time {1,3},
    every dependency subset, a barrier nowhere / after the first / after the second system"""
    kinds = [([h0] + h1, t) for h0 in (10, 20) for h1 in ([], [21]) for t in (1, 3)]
    depsets = [[[]]]
    for k in range(1, nsys):
        depsets.append([list(c) for r in range(k + 1) for c in itertools.combinations(range(k), r)])
    for ks in itertools.product(kinds, repeat=nsys):
        for ds in itertools.product(*depsets):
            for bar in range(nsys):
                g = []
                for i in range(nsys):
                    if bar and i == bar:
                        g.append(("barrier",))
                    g.append(("sys", ks[i][1], ks[i][0], ds[i]))
                yield g


def remove_system(g, k):
    """the graph without system k (dependencies on it dropped, later ids shifted)"""
    out, i = [], 0
    for it in g:
        if it[0] == "sys":
            if i != k:
                deps = [d - (1 if d > k else 0) for d in it[3] if d != k]
                out.append(("sys", it[1], it[2], deps))
            i += 1
        else:
            out.append(it)
    return out
