"""Generators for the `world` domain (entity lifecycle part).

A history is a list of ops; an op is (code, [payload ints]).  Encoded on one
line as: code n x1..xn code n x1..xn ...
All random choices derive from one random.Random(seed)."""
import itertools
import random

# op codes (see coq/theories/World/Ops.v)
C, CX, CI, EC, ECI, EB, LC = 1, 2, 3, 4, 5, 6, 7
D, DM, ED, DA, M = 10, 11, 12, 13, 14
A, WA, JE, EA, PROBE = 20, 21, 22, 23, 24

NAMES = {1: "Create", 2: "CreateDropped", 3: "CreateIter", 4: "ECreate", 5: "ECreateIter", 6: "EBuild",
         7: "LazyCreate", 10: "Delete", 11: "DeleteMany", 12: "EDelete", 13: "DeleteAll", 14: "Maintain",
         20: "IsAlive", 21: "WIsAlive", 22: "JoinEntities", 23: "EntityAt", 24: "ProbeAll",
         # joins / restricted storages / change sets (JOINS_SPEC.md; generators in join_gen.py)
         80: "Join", 81: "CsNew", 82: "CsAdd", 83: "CsCollect", 84: "CsExtend", 85: "CsClear", 86: "CsDump"}

# code -> function(payload) -> text: structured printing of an operation (join_gen registers one for Join)
PRETTY_HOOKS = {}


def encode(hist):
    out = []
    for code, p in hist:
        out.append(code)
        out.append(len(p))
        out.extend(p)
    return " ".join(str(x) for x in out)


def decode(line):
    xs = [int(t) for t in line.split()]
    i, hist = 0, []
    while i + 1 < len(xs):
        code, n = xs[i], xs[i + 1]
        hist.append((code, xs[i + 2:i + 2 + n]))
        i += 2 + n
    return hist


def pretty(hist):
    parts = []
    for code, p in hist:
        if code in PRETTY_HOOKS:
            parts.append(PRETTY_HOOKS[code](p))
            continue
        nm = NAMES.get(code, "op%d" % code)
        parts.append(nm + ("(" + ",".join(str(x) for x in p) + ")" if p else ""))
    return "; ".join(parts)


def n_created(op):
    code, p = op
    if code in (C, CX, EC, EB, LC):
        return 1
    if code in (CI, ECI):
        return max(p[0], 0)
    return 0


def with_probes(hist, every=1):
    out = []
    for k, op in enumerate(hist):
        out.append(op)
        if (k + 1) % every == 0:
            out.append((PROBE, []))
    if not out or out[-1][0] != PROBE:
        out.append((PROBE, []))
    return out


def enumerate_histories(maxlen, maxh=3):
    """All well-formed histories up to maxlen over a reduced alphabet with at
    most maxh distinct handle positions referenced (0..maxh-1)."""
    creations = [(C, []), (CX, []), (CI, [2]), (EC, []), (EB, [0]), (EB, [1])]
    fixed = [(DA, []), (M, [])]

    def ops_for(nh):
        ops = list(creations) + list(fixed)
        hs = list(range(min(nh, maxh)))
        for h in hs:
            ops.append((D, [h]))
            ops.append((ED, [h]))
        for a in hs:
            for b in hs:
                ops.append((DM, [a, b]))
        if len(hs) >= 3:
            ops.append((DM, [0, 1, 2]))
            ops.append((DM, [2, 0, 2]))
        return ops

    def rec(prefix, nh, depth):
        if prefix:
            yield list(prefix)
        if depth == 0:
            return
        for op in ops_for(nh):
            prefix.append(op)
            yield from rec(prefix, nh + n_created(op), depth - 1)
            prefix.pop()

    yield from rec([], 0, maxlen)


def random_history(rng, length, style="mixed"):
    """Structured random history: bursts of creation, mixed deletion with
    planted dead/repeated handles, maintains at random points, forced reuse."""
    hist, nh = [], 0
    live_guess = []  # handle positions probably alive (bias only)
    dead_guess = []
    while len(hist) < length:
        r = rng.random()
        if nh == 0 or r < 0.30:
            k = rng.random()
            if k < 0.25:
                op = (C, [])
            elif k < 0.35:
                op = (CX, [])
            elif k < 0.50:
                op = (CI, [rng.randint(1, 5)])
            elif k < 0.65:
                op = (EC, [])
            elif k < 0.75:
                op = (ECI, [rng.randint(1, 4)])
            elif k < 0.90:
                op = (EB, [rng.randint(0, 1)])
            else:
                op = (LC, [])
            n = n_created(op)
            if op[0] in (CX,) or (op[0] == EB and op[1][0] == 0):
                dead_guess.extend(range(nh, nh + n))
            else:
                live_guess.extend(range(nh, nh + n))
            nh += n
        elif r < 0.50:
            pool = live_guess if (live_guess and rng.random() < 0.8) else list(range(nh))
            h = rng.choice(pool)
            op = (D, [h]) if rng.random() < 0.6 else (ED, [h])
            if h in live_guess and op[0] == D:
                live_guess.remove(h)
                dead_guess.append(h)
        elif r < 0.68:
            # batch: mostly live handles, sometimes a planted dead or repeated handle
            k = rng.randint(1, 5)
            pool = live_guess if live_guess else list(range(nh))
            batch = [rng.choice(pool) for _ in range(k)]
            batch = list(dict.fromkeys(batch)) if rng.random() < 0.6 else batch
            if rng.random() < 0.45:
                bad = rng.choice(dead_guess) if (dead_guess and rng.random() < 0.6) else rng.choice(batch)
                batch.insert(rng.randint(0, len(batch)), bad)
            op = (DM, batch)
            for h in batch:
                if h in live_guess:
                    live_guess.remove(h)
                    dead_guess.append(h)
        elif r < 0.80:
            op = (M, [])
        elif r < 0.83:
            op = (DA, [])
            dead_guess.extend(live_guess)
            live_guess = []
        else:
            h = rng.randrange(nh)
            op = rng.choice([(A, [h]), (WA, [h]), (JE, []), (EA, [h])])
        hist.append(op)
    return hist


def leak_pattern(rng):
    """create a few, failing batch delete, then create again (index reuse must follow)."""
    n = rng.randint(2, 6)
    if rng.random() < 0.15:
        n = rng.choice([66, 70, 130, 200])      # batches longer than 64, failing beyond position 64
    hist = [(CI, [n])]
    k = rng.randint(1, n - 1) if n < 60 else rng.randint(64, n - 1)
    batch = list(range(k)) + [rng.randrange(k)] + list(range(k, n))[:rng.randint(0, 2)]
    hist.append((DM, batch))
    if rng.random() < 0.5:
        hist.append((M, []))
    hist.append((rng.choice([CI, ECI]), [rng.randint(1, n + 1)]))
    if rng.random() < 0.5:
        hist.append((M, []))
        hist.append((CI, [rng.randint(1, 3)]))
    return hist


def long_history(rng, length):
    """long churn: keeps a bounded population, for index-space trends (C17)."""
    hist, nh = [], 0
    alive = []
    while len(hist) < length:
        if len(alive) < 3 or (len(alive) < 40 and rng.random() < 0.5):
            n = rng.randint(1, 6)
            hist.append((rng.choice([CI, ECI]), [n]))
            alive.extend(range(nh, nh + n))
            nh += n
        else:
            k = rng.randint(1, min(5, len(alive)))
            batch = rng.sample(alive, k)
            if rng.random() < 0.3:
                batch.insert(rng.randint(0, len(batch)), rng.choice(batch))
            if rng.random() < 0.7:
                hist.append((DM, batch))
            else:
                hist.append((ED, [batch[0]]))
                batch = batch[:1]
            for h in batch:
                if h in alive:
                    alive.remove(h)
            if rng.random() < 0.3:
                hist.append((M, []))
    return hist
