"""Generator for the `derive` domain (property C18).

Draws type definitions from the grammar of shapes supported by
#[derive(ConvertSaveload)] / #[derive(Component)] (coq/theories/SaveLoad/Derive.v),
values of them, and writes a Rust crate whose types carry the REAL derives.
The same shapes / values are encoded as integer lines for the extracted model
(coq/theories/SaveLoad/DeriveCodec.v).  All random choices come from the
random.Random passed in.

python-side representation (mirrors Derive.v):
  ty     ('prim', kind) | ('ent',) | ('named', k, arg|None) | ('tuple', [ty]) | ('array', ty, n) | ('param',)
  field  dict(name=int, attrs=[('skip',)|('fwd', a)], ty=ty)
  def    dict(kind='struct', generic=bool, fields=(shape, [field]))          shape in 'tuple' | 'named'
         dict(kind='enum',   generic=bool, variants=[dict(name, attrs, fields=(shape,[field]))])   shape also 'unit'
  value  ('prim', z) | ('ent', slot) | ('seq', [v]) | ('unit',) | ('tup', [v]) | ('rec', [(name, v)]) | ('var', vn, body)
"""
import json
import re

# ------------------------------------------------------------------ plain leaves
# a leaf code z = payload * 8 + kind; the model treats z as opaque

PRIM_TYPES = ["u32", "i64", "bool", "String", "Option<u8>", "Vec<u16>", "u8", "u64"]


def prim_code(kind, payload):
    return payload * 8 + kind


def prim_rust(z):
    kind, p = z % 8, z // 8
    if kind == 0:
        return "%du32" % p
    if kind == 1:
        return "(%d)" % (p - 500)
    if kind == 2:
        return "true" if p % 2 else "false"
    if kind == 3:
        return 'String::from("s%d")' % p
    if kind == 4:
        return "None" if p % 5 == 0 else "Some(%du8)" % (p % 200)
    if kind == 5:
        return "vec![%s]" % ", ".join(d + "u16" for d in str(p)) if p else "Vec::<u16>::new()"
    if kind == 6:
        return "%du8" % (p % 256)
    return "%du64" % (p * 1000000007)


def prim_json(z):
    kind, p = z % 8, z // 8
    if kind == 0:
        return p
    if kind == 1:
        return p - 500
    if kind == 2:
        return bool(p % 2)
    if kind == 3:
        return "s%d" % p
    if kind == 4:
        return None if p % 5 == 0 else p % 200
    if kind == 5:
        return [int(d) for d in str(p)] if p else []
    if kind == 6:
        return p % 256
    return p * 1000000007


# ------------------------------------------------------------------ storage attribute vocabulary
# identifiers (Derive.v: id_storage = 0, id_DenseVecStorage = 1) and opaque argument tokens (id_Self = 0)

IDENTS = {0: "storage", 1: "DenseVecStorage", 2: "VecStorage", 3: "HashMapStorage", 4: "BTreeStorage",
          5: "FlaggedStorage", 6: "specs", 8: "allow", 9: "doc"}
ARGS = {0: "Self", 1: "VecStorage<Self>", 2: "HashMapStorage<Self>"}

# candidate #[storage(..)] arguments: list of segments (ident, None | [arg tokens])
STORAGE_PATHS = [
    [(2, None)], [(1, None)], [(3, None)], [(4, None)], [(5, None)],
    [(2, [0])], [(1, [0])], [(3, [0])], [(4, [0])],
    [(5, [0, 1])], [(5, [0, 2])],
    [(6, None), (0, None), (4, None)], [(6, None), (0, None), (2, None)],
    [(6, None), (0, None), (3, [0])], [(6, None), (0, None), (1, [0])],
]


def path_rust(p):
    return "::".join(IDENTS[i] + ("" if a is None else "<" + ", ".join(ARGS[x] for x in a) + ">") for i, a in p)


def gen_component_attrs(rng):
    """outer attributes of a definition as seen by #[derive(Component)]:
    list of ('storage', path) | ('other', ident, text)"""
    attrs = []
    if rng.random() < 0.25:
        attrs.append(("other", 8, "#[allow(dead_code)]"))
    r = rng.random()
    if r < 0.22:
        pass
    else:
        attrs.append(("storage", rng.choice(STORAGE_PATHS)))
        if rng.random() < 0.12:
            attrs.append(("storage", rng.choice(STORAGE_PATHS)))      # a second one: the first wins
    if rng.random() < 0.15:
        attrs.append(("other", 9, '#[doc = "x"]'))
    return attrs


def encode_storage_case(attrs):
    out = [1, len(attrs)]
    for a in attrs:
        if a[0] == "storage":
            out += [0, len(a[1])]
            for ident, args in a[1]:
                out += [ident] + ([0] if args is None else [1, len(args)] + list(args))
        else:
            out += [a[1], 0]
    return out


def decode_storage_out(ints, self_name):
    """model output -> canonical type text (last segment only, as type_name prints no `use` paths)"""
    if not ints or ints[0] != 1:
        return None
    n, i, segs = ints[1], 2, []
    for _ in range(n):
        ident, kind = ints[i], ints[i + 1]
        i += 2
        args = None
        if kind == 1:
            k = ints[i]
            args = ints[i + 1:i + 1 + k]
            i += 1 + k
        segs.append((ident, args))
    ident, args = segs[-1]
    txt = IDENTS[ident]
    if args is not None:
        txt += "<" + ", ".join(ARGS[a] for a in args) + ">"
    return txt.replace("Self", self_name)


def canon_type_name(s):
    """std::any::type_name output without module paths"""
    return re.sub(r"(?:[A-Za-z_][A-Za-z0-9_]*::)+", "", s.strip())


# ------------------------------------------------------------------ shapes

def subst(t, p):
    if t[0] == "param":
        return p
    if t[0] == "named" and t[2] is not None:
        return ("named", t[1], subst(t[2], p))
    return t


def is_plain(t):
    return t[0] == "prim" or (t[0] == "tuple" and all(is_plain(x) for x in t[1])) or (t[0] == "array" and is_plain(t[1]))


class Crate:
    def __init__(self):
        self.defs = []       # definitions in order
        self.depth = []      # nesting depth of each definition
        self.cattrs = []     # component attributes of each definition
        self.cases = []      # dict(id, ty, value, kind)
        self.scases = []     # dict(id, k, ty)  storage cases
        self.nslots = 0
        self.rename = 0
        self.fname = 0
        self.vname = 0


def gen_plain_ty(rng, depth=0):
    r = rng.random()
    if depth >= 2 or r < 0.6:
        return ("prim", rng.randrange(8))
    if r < 0.85:
        return ("tuple", [gen_plain_ty(rng, depth + 1) for _ in range(rng.randint(1, 3))])
    return ("array", gen_plain_ty(rng, depth + 1), rng.randint(0, 4))


def ty_depth(c, t):
    if t[0] == "named":
        d = c.depth[t[1]]
        if t[2] is not None:
            d = max(d, ty_depth(c, t[2]))
        return d
    return 0


def gen_named_ty(rng, c, generic, max_depth):
    """a reference to an earlier definition of nesting depth <= max_depth, or None"""
    cands = [k for k in range(len(c.defs)) if c.depth[k] <= max_depth]
    if not cands:
        return None
    k = rng.choice(cands)
    arg = None
    if c.defs[k]["generic"]:
        r = rng.random()
        if generic and r < 0.35:
            arg = ("param",)
        elif r < 0.6:
            arg = ("ent",)
        elif r < 0.8:
            arg = gen_plain_ty(rng, 1)
        else:
            ng = [j for j in range(len(c.defs)) if not c.defs[j]["generic"] and c.depth[j] <= max_depth]
            arg = ("named", rng.choice(ng), None) if ng else ("ent",)
    return ("named", k, arg)


def gen_field_ty(rng, c, generic, max_depth):
    r = rng.random()
    if r < 0.30:
        return ("prim", rng.randrange(8))
    if r < 0.55:
        return ("ent",)
    if r < 0.67:
        return gen_plain_ty(rng)
    if generic and r < 0.80:
        return ("param",)
    t = gen_named_ty(rng, c, generic, max_depth) if max_depth >= 1 else None
    return t if t is not None else ("ent",)


def gen_fields(rng, c, generic, shape, max_depth, nmin=1, nmax=8, force_param=False, big=False):
    fs = []
    # one draw in five: all fields of one type (>= 3 of them), so that a permutation of the
    # fields in the generated code still type-checks and can only be seen in the data
    same = gen_field_ty(rng, c, generic, max_depth) if (big or rng.random() < 0.2) else None
    if same is not None:
        nmin = min(max(nmin, 3), nmax)
        if big or rng.random() < 0.3:
            # more than ten fields (positions 10, 11, .. sort before 2 as strings)
            nmin, nmax = 11, 13
    for _ in range(rng.randint(nmin, nmax)):
        t = same if same is not None else gen_field_ty(rng, c, generic, max_depth)
        attrs = []
        if is_plain(t) and rng.random() < 0.35:
            attrs.append(("skip",))
        if shape == "named" and rng.random() < 0.2:
            c.rename += 1
            attrs.append(("fwd", c.rename))
            rng.shuffle(attrs)
        c.fname += 1
        fs.append(dict(name=c.fname, attrs=attrs, ty=t))
    if force_param and not any(_uses_param(f["ty"]) for f in fs):
        f = fs[rng.randrange(len(fs))]                      # an unused parameter would not compile (E0392)
        f["ty"] = ("param",)
        f["attrs"] = [a for a in f["attrs"] if a[0] != "skip"]
    return fs


def has_converted(d):
    fss = [d["fields"][1]] if d["kind"] == "struct" else [v["fields"][1] for v in d["variants"]]
    return any(("skip",) not in f["attrs"] for fs in fss for f in fs)


def gen_def(rng, c, force_kind=None, big=False):
    """one more definition; a definition without any converted field is outside the grammar
    (its Data type would not use MA: rustc E0392), so such draws are rejected"""
    while True:
        d, depth = gen_def_once(rng, c, force_kind, big)
        if has_converted(d):
            break
    c.defs.append(d)
    c.depth.append(depth)
    c.cattrs.append(gen_component_attrs(rng))
    return d


def gen_def_once(rng, c, force_kind=None, big=False):
    max_depth = 2           # references to definitions of depth <= 2: nesting <= 3
    generic = rng.random() < 0.25
    kind = force_kind or rng.choice(["named", "tuple", "enum", "enum"])
    if kind in ("named", "tuple"):
        d = dict(kind="struct", generic=generic,
                 fields=(kind, gen_fields(rng, c, generic, kind, max_depth, force_param=generic, big=big)))
        fss = [d["fields"][1]]
    else:
        vs = []
        nv = rng.randint(1, 5)
        param_used = False
        for i in range(nv):
            shape = rng.choice(["unit", "tuple", "named"])
            if generic and i == nv - 1 and not param_used and shape == "unit":
                shape = rng.choice(["tuple", "named"])
            fs = []
            if shape != "unit":
                fs = gen_fields(rng, c, generic, shape, max_depth, 1, 6,
                                force_param=generic and i == nv - 1 and not param_used)
                param_used = param_used or any(_uses_param(f["ty"]) for f in fs)
            attrs = []
            if rng.random() < 0.2:
                c.rename += 1
                attrs.append(("fwd", c.rename))
            c.vname += 1
            vs.append(dict(name=c.vname, attrs=attrs, fields=(shape, fs)))
        d = dict(kind="enum", generic=generic, variants=vs)
        fss = [v["fields"][1] for v in vs]
    depth = 1 + max([ty_depth(c, f["ty"]) for fs in fss for f in fs] + [0])
    return d, depth


def _uses_param(t):
    return t == ("param",) or (t[0] == "named" and t[2] is not None and _uses_param(t[2]))


# ------------------------------------------------------------------ values

def gen_value(rng, c, t, pool):
    if t[0] == "prim":
        return ("prim", prim_code(t[1], rng.randrange(1000)))
    if t[0] == "ent":
        return ("ent", rng.choice(pool))
    if t[0] == "tuple":
        return ("seq", [gen_value(rng, c, x, pool) for x in t[1]])
    if t[0] == "array":
        return ("seq", [gen_value(rng, c, t[1], pool) for _ in range(t[2])])
    if t[0] == "named":
        return gen_def_value(rng, c, t[1], t[2], pool)
    raise ValueError(t)


def gen_fields_value(rng, c, fields, arg, pool):
    shape, fs = fields
    if shape == "unit":
        return ("unit",)
    vals = [gen_value(rng, c, subst(f["ty"], arg), pool) for f in fs]
    if shape == "tuple":
        return ("tup", vals)
    return ("rec", [(f["name"], v) for f, v in zip(fs, vals)])


def gen_def_value(rng, c, k, arg, pool, variant=None):
    d = c.defs[k]
    if d["kind"] == "struct":
        return gen_fields_value(rng, c, d["fields"], arg, pool)
    v = d["variants"][variant if variant is not None else rng.randrange(len(d["variants"]))]
    return ("var", v["name"], gen_fields_value(rng, c, v["fields"], arg, pool))


def converted_ents(c, t, v):
    """entity slots of v in converted (not skipped) positions"""
    if t[0] == "ent":
        return [v[1]]
    if t[0] != "named":
        return []
    d = c.defs[t[1]]
    if d["kind"] == "struct":
        fields, body = d["fields"], v
    else:
        fields = [w for w in d["variants"] if w["name"] == v[1]][0]["fields"]
        body = v[2]
    if fields[0] == "unit":
        return []
    vals = body[1] if fields[0] == "tuple" else [x for _, x in body[1]]
    out = []
    for f, x in zip(fields[1], vals):
        if ("skip",) not in f["attrs"]:
            out += converted_ents(c, subst(f["ty"], t[2]), x)
    return out


def value_size(v):
    if v[0] in ("seq", "tup"):
        return 1 + sum(value_size(x) for x in v[1])
    if v[0] == "rec":
        return 1 + sum(value_size(x) for _, x in v[1])
    if v[0] == "var":
        return 1 + value_size(v[2])
    return 1


# ------------------------------------------------------------------ a whole crate

N_SLOTS = 12
UNMARKED = (3, 9)          # entity slots that get no marker


def gen_crate(rng, n_types, values_per_type=3):
    c = Crate()
    c.nslots = N_SLOTS
    kinds = ["named", "tuple", "enum"]
    for i in range(n_types):
        gen_def(rng, c, force_kind=kinds[i] if i < 3 else None)
    # one tuple struct (and sometimes a named one) with more than ten fields of one type
    gen_def(rng, c, force_kind="tuple", big=True)
    if rng.random() < 0.5:
        gen_def(rng, c, force_kind="named", big=True)
    marked = [s for s in range(N_SLOTS) if s not in UNMARKED]
    everything = list(range(N_SLOTS))
    cid = 0
    for k, d in enumerate(c.defs):
        insts = [None]
        if d["generic"]:
            ng = [j for j in range(k) if not c.defs[j]["generic"]]
            cands = [("ent",), ("prim", rng.randrange(8)), gen_plain_ty(rng, 1)]
            if ng:
                cands.append(("named", rng.choice(ng), None))
            insts = rng.sample(cands, 2)
        for arg in insts:
            t = ("named", k, arg)
            variants = list(range(len(d["variants"]))) if d["kind"] == "enum" else [None]
            plan = [(vi, marked) for vi in variants]                       # every variant at least once
            plan += [(rng.choice(variants), marked) for _ in range(max(0, values_per_type - len(variants)))]
            plan += [(rng.choice(variants), everything)]                   # may meet an entity without a marker
            for vi, pool in plan:
                v = gen_def_value(rng, c, k, arg, pool, vi)
                c.cases.append(dict(id=cid, ty=t, value=v))
                cid += 1
            c.scases.append(dict(id=cid, k=k, ty=t))
            cid += 1
    return c


# ------------------------------------------------------------------ Rust text

def ty_rust(t):
    if t[0] == "prim":
        return PRIM_TYPES[t[1]]
    if t[0] == "ent":
        return "Entity"
    if t[0] == "named":
        return "T%d" % t[1] + ("" if t[2] is None else "<%s>" % ty_rust(t[2]))
    if t[0] == "tuple":
        return "(" + ", ".join(ty_rust(x) for x in t[1]) + ("," if len(t[1]) == 1 else "") + ")"
    if t[0] == "array":
        return "[%s; %d]" % (ty_rust(t[1]), t[2])
    if t[0] == "param":
        return "T"
    raise ValueError(t)


def attrs_rust(attrs):
    out = []
    for a in attrs:
        if a[0] == "skip":
            out.append("#[convert_save_load_skip_convert]")
        else:
            out.append('#[convert_save_load_attr(serde(rename = "r%d"))]' % a[1])
    return " ".join(out)


def fields_rust(fields, indent):
    shape, fs = fields
    if shape == "unit":
        return ""
    if shape == "tuple":
        return "(" + ", ".join((attrs_rust(f["attrs"]) + " " if f["attrs"] else "") + ty_rust(f["ty"]) for f in fs) + ")"
    lines = ["%s    %sf%d: %s," % (indent, attrs_rust(f["attrs"]) + " " if f["attrs"] else "", f["name"], ty_rust(f["ty"]))
             for f in fs]
    return " {\n" + "\n".join(lines) + "\n" + indent + "}"


def def_rust(k, d, cattrs):
    lines = ["#[derive(Clone, Debug, PartialEq, ConvertSaveload, Component)]"]
    for a in cattrs:
        lines.append("#[storage(%s)]" % path_rust(a[1]) if a[0] == "storage" else a[2])
    gen = "<T>" if d["generic"] else ""
    where = " where T: Send + Sync + 'static" if d["generic"] else ""
    if d["kind"] == "struct":
        shape = d["fields"][0]
        body = fields_rust(d["fields"], "")
        if shape == "tuple":
            lines.append("pub struct T%d%s%s%s;" % (k, gen, body, where))
        else:
            lines.append("pub struct T%d%s%s%s" % (k, gen, where, body))
    else:
        lines.append("pub enum T%d%s%s {" % (k, gen, where))
        for v in d["variants"]:
            a = attrs_rust(v["attrs"])
            if a:
                lines.append("    " + a)
            lines.append("    V%d%s," % (v["name"], fields_rust(v["fields"], "    ")))
        lines.append("}")
    return "\n".join(lines)


def value_rust(c, t, v):
    if v[0] == "prim":
        return prim_rust(v[1])
    if v[0] == "ent":
        return "es[%d]" % v[1]
    if v[0] == "seq":
        if t[0] == "tuple":
            return "(" + ", ".join(value_rust(c, x, y) for x, y in zip(t[1], v[1])) + ("," if len(v[1]) == 1 else "") + ")"
        return "[" + ", ".join(value_rust(c, t[1], y) for y in v[1]) + "]"
    assert t[0] == "named", (t, v)
    k, arg = t[1], t[2]
    d = c.defs[k]
    if d["kind"] == "struct":
        head, fields, body = "T%d" % k, d["fields"], v
    else:
        w = [x for x in d["variants"] if x["name"] == v[1]][0]
        head, fields, body = "T%d::V%d" % (k, w["name"]), w["fields"], v[2]
    if fields[0] == "unit":
        return head
    if fields[0] == "tuple":
        return head + "(" + ", ".join(value_rust(c, subst(f["ty"], arg), x) for f, x in zip(fields[1], body[1])) + ")"
    return head + " { " + ", ".join("f%d: %s" % (f["name"], value_rust(c, subst(f["ty"], arg), x))
                                    for f, (_, x) in zip(fields[1], body[1])) + " }"


HEADER = r'''#![allow(warnings)]
// generated by gen/derive_gen.py (property C18): do not edit
use serde::{Deserialize, Serialize};
use specs::prelude::*;
use specs::saveload::{ConvertSaveload, MarkedBuilder, Marker, MarkerAllocator, SimpleMarker, SimpleMarkerAllocator};
use specs::storage::*;
use specs::{Component, ConvertSaveload};
use std::io::Write;

pub struct Net;
type M = SimpleMarker<Net>;

fn rt<T>(id: u32, v: &T, w: &World)
where
    T: ConvertSaveload<M, Error = std::convert::Infallible> + PartialEq,
    <T as ConvertSaveload<M>>::Data: Serialize + serde::de::DeserializeOwned,
{
    let markers = w.read_storage::<M>();
    let alloc = w.read_resource::<SimpleMarkerAllocator<Net>>();
    let r = std::panic::catch_unwind(std::panic::AssertUnwindSafe(|| {
        let d = v.convert_into(|e| markers.get(e).cloned()).unwrap();
        let js = serde_json::to_string(&d).unwrap();
        let d2: <T as ConvertSaveload<M>>::Data = serde_json::from_str(&js).unwrap();
        let v2 = T::convert_from(d2, |m: M| alloc.retrieve_entity_internal(m.id())).unwrap();
        (js, &v2 == v)
    }));
    match r {
        Ok((js, eq)) => println!("C {} {} {}", id, if eq { 1 } else { 0 }, js),
        Err(_) => println!("C {} P", id),
    }
}

fn st<T: Component>(id: u32) {
    println!("S {} {}", id, std::any::type_name::<<T as Component>::Storage>());
}
'''


def world_setup(rng_order):
    """N_SLOTS live entities, two of them with generation 2; markers allocated in a shuffled order"""
    lines = ["    let mut w = World::new();",
             "    w.register::<M>();",
             "    w.insert(SimpleMarkerAllocator::<Net>::new());",
             "    let mut es: Vec<Entity> = Vec::new();",
             "    let tmp: Vec<Entity> = (0..4).map(|_| w.create_entity().build()).collect();",
             "    w.delete_entity(tmp[1]).unwrap();",
             "    w.delete_entity(tmp[2]).unwrap();",
             "    w.maintain();",
             "    es.push(tmp[0]);",
             "    es.push(tmp[3]);",
             "    for _ in 0..%d { es.push(w.create_entity().build()); }" % (N_SLOTS - 2),
             "    let order: [usize; %d] = [%s];" % (len(rng_order), ", ".join(map(str, rng_order))),
             "    for &k in order.iter() {",
             "        let mut alloc = w.write_resource::<SimpleMarkerAllocator<Net>>();",
             "        alloc.mark(es[k], &mut w.write_storage::<M>());",
             "    }",
             "    for (k, e) in es.iter().enumerate() {",
             "        let m = w.read_storage::<M>().get(*e).map(|m| m.id() as i64).unwrap_or(-1);",
             "        println!(\"E {} {} {} {}\", k, e.id(), e.gen().id(), m);",
             "    }"]
    return lines


def crate_rust(c, rng):
    """returns (main.rs text, {line number: ('def', k) | ('case', id)})"""
    lines = HEADER.split("\n")
    owner = {}
    for k, d in enumerate(c.defs):
        lines.append("")
        txt = def_rust(k, d, c.cattrs[k]).split("\n")
        for i in range(len(txt)):
            owner[len(lines) + i + 1] = ("def", k)
        lines += txt
    lines.append("")
    lines.append("fn main() {")
    lines.append("    std::panic::set_hook(Box::new(|_| {}));")
    order = [s for s in range(N_SLOTS) if s not in UNMARKED]
    rng.shuffle(order)
    lines += world_setup(order)
    # cases grouped in helper functions to keep main small
    calls = []
    for case in c.cases:
        owner[len(lines) + 1] = ("case", case["id"])
        lines.append("    { let v: %s = %s; rt(%d, &v, &w); }" % (ty_rust(case["ty"]), value_rust(c, case["ty"], case["value"]),
                                                             case["id"]))
    for sc in c.scases:
        owner[len(lines) + 1] = ("case", sc["id"])
        lines.append("    st::<%s>(%d);" % (ty_rust(sc["ty"]), sc["id"]))
    lines.append("    std::io::stdout().flush().unwrap();")
    lines.append("}")
    return "\n".join(lines) + "\n", owner


CARGO_TOML = '''[package]
name = "derive-gen"
version = "0.1.0"
edition = "2021"

[dependencies]
specs = { path = "%s", features = ["serde", "uuid_entity", "storage-event-control", "derive"] }
serde = { version = "1.0", features = ["derive"] }
serde_json = "1.0"

[profile.dev]
opt-level = 1
debug = false

[workspace]
'''


# ------------------------------------------------------------------ encoding for the model

def enc_ty(t):
    if t[0] == "prim":
        return [0]
    if t[0] == "ent":
        return [1]
    if t[0] == "named":
        return [2, t[1]] + ([0] if t[2] is None else [1] + enc_ty(t[2]))
    if t[0] == "tuple":
        return [3, len(t[1])] + [x for y in t[1] for x in enc_ty(y)]
    if t[0] == "array":
        return [4, t[2]] + enc_ty(t[1])
    if t[0] == "param":
        return [5]
    raise ValueError(t)


def enc_attrs(attrs):
    out = [len(attrs)]
    for a in attrs:
        out += [0] if a[0] == "skip" else [1, a[1]]
    return out


def enc_fields(fields):
    shape, fs = fields
    if shape == "unit":
        return [0]
    out = [1 if shape == "tuple" else 2, len(fs)]
    for f in fs:
        out += [f["name"]] + enc_attrs(f["attrs"]) + enc_ty(f["ty"])
    return out


def enc_def(d):
    g = 1 if d["generic"] else 0
    if d["kind"] == "struct":
        return [0, g] + enc_fields(d["fields"])
    out = [1, g, len(d["variants"])]
    for v in d["variants"]:
        out += [v["name"]] + enc_attrs(v["attrs"]) + enc_fields(v["fields"])
    return out


def enc_env(defs):
    return [len(defs)] + [x for d in defs for x in enc_def(d)]


def enc_value(v, slots):
    if v[0] == "prim":
        return [0, v[1]]
    if v[0] == "ent":
        i, g, _ = slots[v[1]]
        return [1, i, g]
    if v[0] == "seq":
        return [3, len(v[1])] + [x for y in v[1] for x in enc_value(y, slots)]
    if v[0] == "unit":
        return [4]
    if v[0] == "tup":
        return [5, len(v[1])] + [x for y in v[1] for x in enc_value(y, slots)]
    if v[0] == "rec":
        return [6, len(v[1])] + [x for n, y in v[1] for x in [n] + enc_value(y, slots)]
    if v[0] == "var":
        return [7, v[1]] + enc_value(v[2], slots)
    raise ValueError(v)


def enc_ids(slots):
    tbl = [(i, g, m) for i, g, m in slots if m >= 0]
    return [len(tbl)] + [x for t in tbl for x in t]


def encode_case(c, case, slots):
    """slots: [(index, generation, marker id or -1)] as printed by the program"""
    return [0] + enc_env(c.defs[:max_def(case["ty"]) + 1]) + enc_ty(case["ty"]) + enc_value(case["value"], slots) + enc_ids(slots)


def max_def(t):
    if t[0] == "named":
        return max(t[1], max_def(t[2]) if t[2] is not None else -1)
    return -1


def decode_json_tokens(ints):
    """model's json tokens -> python object (dicts keep insertion order)"""
    def go(i):
        tag = ints[i]
        if tag == 0:
            return prim_json(ints[i + 1]), i + 2
        if tag == 1:
            return [ints[i + 1]], i + 2                  # SimpleMarker serialises as [id]
        if tag == 2:
            return key_text(ints[i + 1], ints[i + 2]), i + 3
        if tag == 3:
            n, i, out = ints[i + 1], i + 2, []
            for _ in range(n):
                x, i = go(i)
                out.append(x)
            return out, i
        if tag == 4:
            n, i, out = ints[i + 1], i + 2, {}
            for _ in range(n):
                k = key_text(ints[i], ints[i + 1])
                x, i = go(i + 2)
                out[k] = x
            return out, i
        raise ValueError("bad json token %r at %d" % (tag, i))
    x, i = go(0)
    if i != len(ints):
        raise ValueError("trailing json tokens")
    return x


def key_text(a, n):
    return {0: "f%d", 1: "V%d", 2: "r%d"}[a] % n


def canon_json(obj):
    return json.dumps(obj, separators=(",", ":"), ensure_ascii=False)
