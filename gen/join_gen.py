"""Generators for the join / restricted-storage / change-set operations (codes 80..86, JOINS_SPEC.md).

join_history(rng, length, focus) with focus in {"join", "par", "restrict", "changeset"} returns a list of
(code, payload) like the other generators.  The histories stay inside the "which combinations exist"
rules of the spec, so the harness must answer none of their operations with [8] (skip) or [9] (panic).
All random choices derive from the rng passed in."""
import world_gen as wg
import store_gen as sg

JOIN, CSNEW, CSADD, CSCOLLECT, CSEXTEND, CSCLEAR, CSDUMP = 80, 81, 82, 83, 84, 85, 86
K_JOIN, K_LEND, K_PAR, K_GET, K_GETU = 0, 1, 2, 3, 4
M_READ, M_WRITE, M_ENTS, M_BITS, M_ANTI, M_MAYBE, M_RESTR, M_CS, M_DRAIN, M_BITOP = range(10)
FOCI = ("join", "par", "restrict", "changeset")

# interesting positions of the hierarchical bit set: word / layer boundaries
BOUNDARY = [0, 1, 62, 63, 64, 65, 127, 128, 4094, 4095, 4096, 4097]
POOLS = [1, 1, 2, 2, 3, 4, 4, 5, 7, 8, 8, 13, 16, 32, 33, 64]
# at most this many additions reach one change-set slot between two resets (the spec allows 30)
CS_BUDGET = 24


def write_ok(kind, sid):
    """`&mut storage` / `&mut restrict_mut()` exist: join needs SharedGetMutStorage (ids 0..10),
    par_join additionally DistinctStorage (ids 0..5), lend_join nothing"""
    if kind == K_JOIN:
        return sid <= 10 or sid == 16
    if kind == K_PAR:
        return sid <= 5
    return True


class JGen(sg.Gen):
    def __init__(self, rng, focus):
        sg.Gen.__init__(self, rng)
        self.focus = focus
        self.cs_depth = [0, 0, 0, 0]
        self.hot = []          # handles that received components (sparse, boundary-straddling)
        self.idx_hint = [0]    # indices worth asking for (bit-set members, get_unchecked)
        self.n0 = 0            # handles below n0 come from the first CreateIter: index = handle
        # approximate bookkeeping (bias only): which handles probably own a component / sit in a slot
        self.has = {}
        self.cs_has = [set(), set(), set(), set()]
        self.seen = 0          # operations of self.hist already accounted for
        self.seen_nh = 0

    # ------------------------------------------------------------------ approximate bookkeeping
    def kill(self, h):
        sg.Gen.kill(self, h)
        for s in self.has.values():
            s.discard(h)

    def sync(self):
        """account for the operations appended since the last call"""
        live = set(self.live)
        for code, p in self.hist[self.seen:]:
            first = self.seen_nh
            self.seen_nh += wg.n_created((code, p))
            if code == sg.INS and p[1] in live:
                self.has.setdefault(p[0], set()).add(p[1])
            elif code == sg.REM:
                self.has.setdefault(p[0], set()).discard(p[1])
            elif code == sg.ENT:
                if p[2] in (1, 2) and p[1] in live:
                    self.has.setdefault(p[0], set()).add(p[1])
                elif p[2] == 3:
                    self.has.setdefault(p[0], set()).discard(p[1])
            elif code == sg.GMD and p[1] in live:
                self.has.setdefault(p[0], set()).add(p[1])
            elif code in (sg.DRN, sg.CLR):
                self.has[p[0]] = set()
            elif code in (wg.C, wg.EB):
                cs = p if code == wg.C else p[1:]
                if code == wg.C or p[0]:
                    for k in range(0, len(cs) - 2, 3):
                        self.has.setdefault(cs[k], set()).add(first)
            elif code in (wg.D, wg.ED, wg.DM):
                for h in p:
                    for s in self.has.values():
                        s.discard(h)
            elif code == wg.DA:
                self.has = {}
            elif code == JOIN:
                i = 3
                for _ in range(p[2]):
                    i = self.sync_member(p, i)
            elif code == CSADD:
                self.cs_has[p[0]].add(p[1])
            elif code == CSCOLLECT:
                self.cs_has[p[0]] = set(p[2::2])
            elif code == CSEXTEND:
                self.cs_has[p[0]].update(p[2::2])
            elif code in (CSNEW, CSCLEAR):
                self.cs_has[p[0]] = set()
        self.seen = len(self.hist)

    def sync_member(self, p, i):
        c = p[i]
        if c in (0, 4):
            return i + 2
        if c == 1:
            return i + 5
        if c == 2:
            return i + 1
        if c == 3:
            return i + 2 + p[i + 1]
        if c == 5:
            return self.sync_member(p, i + 1)
        if c == 6:
            return i + 7 + p[i + 6]
        if c == 7:
            if p[i + 2] == 2:
                self.cs_has[p[i + 1]] = set()
            return i + 4
        if c == 9:
            na = p[i + 2]
            return i + 4 + na + p[i + 3 + na]
        self.has[p[i + 1]] = set()      # drain
        return i + 2

    def owners(self, sid):
        return self.has.get(sid, set())

    def refill(self):
        """put components back (drains, clears and removals empty the storages over time)"""
        rng = self.rng
        sid = rng.choice(self.regs)
        targets = [h for h in self.hot if h in self.live]
        for h in rng.sample(targets, min(len(targets), rng.randint(2, 6))):
            u, v = self.tok(sid)
            self.hist.append((sg.INS, [sid, h, u, v]))

    # ------------------------------------------------------------------ population
    def populate(self):
        rng = self.rng
        r = rng.random()
        if r < 0.14:
            n = rng.choice([4100, 4130, 4200])
        elif r < 0.50:
            n = rng.choice([66, 70, 100, 130, 200, 300])
        else:
            n = rng.randint(4, 14)
        # the first creation: handle k has index k
        self.hist.append((wg.CI, [n]))
        self.created(n)
        self.n0 = n
        cand = [b for b in BOUNDARY if b < n] + [n - 1] + [rng.randrange(n) for _ in range(rng.randint(2, 6))]
        keep = sorted(set(cand))
        if len(keep) > 14:
            keep = sorted(set(rng.sample(keep, 14) + [b for b in (63, 64, 4095, 4096) if b < n]))
        self.hot = list(keep)
        self.idx_hint = sorted(set(keep + [n, n + 1, rng.randrange(n + 40)]))
        # components: every storage gets a random (often overlapping) part of the kept handles
        for sid in self.regs:
            dens = rng.choice([0.5, 0.7, 0.85, 0.95])
            for h in keep:
                if rng.random() < dens:
                    u, v = self.tok(sid)
                    self.hist.append((sg.INS, [sid, h, u, v]))
        # delete most of the rest: sparse masks, few live entities
        spare = [h for h in range(n) if h not in keep]
        extra = rng.sample(spare, min(len(spare), rng.randint(0, 4)))
        victims = [h for h in spare if h not in extra]
        if victims:
            if rng.random() < 0.5:
                rng.shuffle(victims)
            self.hist.append((wg.DM, victims))
            gone = set(victims)
            self.live = [h for h in self.live if h not in gone]
            self.dead.extend(victims)
        if rng.random() < 0.6:
            self.hist.append((wg.M, []))
        if rng.random() < 0.6:
            self.stale_round()

    def populate_packed(self):
        """a small world in which some storages are full (every index 0..n-1 has the component) but were filled
        out of index order, or had a value removed and put back: the order of the values inside a dense storage
        then differs from the index order; a mutating join follows at once and every entity is looked up"""
        rng = self.rng
        n = rng.randint(3, 9)
        self.hist.append((wg.CI, [n]))
        self.created(n)
        self.n0 = n
        self.hot = list(range(n))
        self.idx_hint = sorted(set(range(n + 2)))
        full = []
        for sid in self.regs:
            order = list(range(n))
            if rng.random() < 0.75:
                rng.shuffle(order)
            if rng.random() < 0.75:
                full.append(sid)
            else:
                order = [h for h in order if rng.random() < 0.7]
            for h in order:
                u, v = self.tok(sid)
                self.hist.append((sg.INS, [sid, h, u, v]))
            if rng.random() < 0.4 and order:
                h = rng.choice(order)
                self.hist.append((sg.REM, [sid, h]))
                u, v = self.tok(sid)
                self.hist.append((sg.INS, [sid, h, u, v]))
        if rng.random() < 0.5:
            self.hist.append((wg.M, []))
        for sid in full:
            kinds = [k for k in (K_JOIN, K_PAR, K_LEND) if write_ok(k, sid)]
            kind = rng.choice(kinds)
            if rng.random() < 0.5:
                members = [[M_WRITE, sid, rng.randint(0, 1), 1, self.delta(sid)]]
            else:
                # through the mutable restricted view, every item (or every second one) written
                sm = rng.choice([1, 1, 2])
                members = [[M_RESTR, sid, 1, sm, rng.randrange(sm), self.delta(sid), 0]]
            if rng.random() < 0.4:
                members.append([M_ENTS])
            rng.shuffle(members)
            arg = rng.choice(POOLS) if kind == K_PAR else rng.choice([-1, -1, -2]) if kind == K_LEND else -1
            payload = [kind, arg, len(members)]
            for m in members:
                payload += m
            self.hist.append((JOIN, payload))
            for h in range(n):
                self.hist.append((sg.GET, [sid, h]))
        # the same for a change set: amounts added in shuffled order for every index, then updated through a join
        if rng.random() < 0.6:
            c = rng.randrange(4)
            order = list(range(n))
            rng.shuffle(order)
            pairs = []
            for h in order:
                pairs += [h, rng.randint(-20, 20)]
            self.hist.append((CSCOLLECT, [c, n] + pairs))
            self.cs_depth[c] = n
            kind = rng.choice([K_JOIN, K_LEND])
            self.hist.append((JOIN, [kind, -1, 1, M_CS, c, 1, rng.randint(-9, 9)]))
            self.cs_depth[c] += n
            self.hist.append((CSDUMP, [c]))

    def stale_round(self):
        """kill a few component owners, merge, create again: the old handles are stale and their
        indices are (often) occupied by new entities, with or without the component"""
        rng = self.rng
        owners = [h for h in self.hot if h in self.live]
        if not owners:
            return
        for h in rng.sample(owners, min(len(owners), rng.randint(1, 3))):
            self.hist.append((rng.choice([wg.D, wg.ED]), [h]))
            self.kill(h)
        self.hist.append((wg.M, []))
        stale = [h for h in self.dead[-3:]]
        fresh = []
        for _ in range(rng.randint(1, 3)):
            self.hist.append((wg.C, self.comps(3)))
            self.hot.append(self.nh)
            fresh.append(self.nh)
            self.created(1)
        if stale and fresh and self.regs and rng.random() < 0.5:
            # the exclusive restricted view looks the new occupants and the stale handles of the same indices up
            # alternately, mutably (a lookup must not be answered from what the previous one found)
            others = []
            for n in fresh[:2]:
                for st in stale[:2]:
                    others += [n, st]
            sid = rng.choice(self.regs)
            d = self.delta(sid) | 1
            self.hist.append((JOIN, [K_LEND, rng.choice([-1, -2]), 1, M_RESTR, sid, 1, 2, rng.randrange(2), d, len(others)] + others))
        # the stale handles looked up at once through lending joins: with members that bound the join, and with
        # optional / negated members only (nothing but the aliveness test stands between the handle and the successor)
        for h in stale:
            if rng.random() < 0.6 and self.regs:
                sids = rng.sample(self.regs, min(len(self.regs), rng.randint(1, 3)))
                if rng.random() < 0.5:
                    members = [[M_MAYBE, M_READ, sid] for sid in sids]
                else:
                    members = [[M_READ, sids[0]]] + [[M_MAYBE, M_READ, sid] for sid in sids[1:]]
                if rng.random() < 0.3:
                    members.append([M_MAYBE, M_ENTS])
                flat = [x for m in members for x in m]
                self.hist.append((JOIN, [K_GET, h, len(members)] + flat))

    def fresh_round(self):
        """entities created through the shared Entities resource (alive, but not merged until the next maintain),
        given components on the spot: joins and other-entity lookups before the maintain must see them"""
        rng = self.rng
        if rng.random() < 0.5:
            owners = [h for h in self.hot if h in self.live]
            if owners:
                h = rng.choice(owners)
                self.hist.append((wg.D, [h]))       # frees an index that the atomic creation may take
                self.kill(h)
        for _ in range(rng.randint(1, 3)):
            cs = self.comps(3)
            self.hist.append((wg.EB, [1] + cs))
            h = self.nh
            self.hot.append(h)
            self.created(1)
            if rng.random() < 0.6:
                # looked up at once through the lending join (by entity and by index), and visited by an iteration
                members = [[M_READ, sid] for sid in cs[0::3]]
                if not members or rng.random() < 0.4:
                    members.append([M_ENTS])
                rng.shuffle(members)
                flat = [x for m in members for x in m]
                self.hist.append((JOIN, [K_GET, h, len(members)] + flat))
                if rng.random() < 0.5:
                    self.hist.append((JOIN, [rng.choice([K_JOIN, K_LEND]), -1, len(members)] + flat))

    # ------------------------------------------------------------------ members
    def some_handle(self):
        """live with / without component, dead, stale: whatever the pools give"""
        rng = self.rng
        r = rng.random()
        if r < 0.45 and self.hot:
            return rng.choice(self.hot)
        h = self.handle(0.5)
        return 0 if h is None else h

    def some_index(self):
        rng = self.rng
        r = rng.random()
        if r < 0.7:
            return rng.choice(self.idx_hint)
        if r < 0.9:
            return rng.randrange(max(self.nh, 1) + 3)
        return rng.choice([63, 64, 4095, 4096, 5000, 262143, 262144, 300000])

    def delta(self, sid=None):
        if sid in sg.UNIT_SIDS:
            return self.rng.randint(-3, 3)
        return self.rng.randint(-40, 40)

    def pick_sid(self, cands, anchor, want):
        """a storage among cands; with an anchor, mostly one that (want) / does not (not want) hold it"""
        rng = self.rng
        if anchor is not None and rng.random() < 0.85:
            good = [s for s in cands if (anchor in self.owners(s)) == want]
            if good:
                return rng.choice(good)
            if rng.random() < 0.7:
                return None
        return rng.choice(cands)

    def member(self, kind, used, anchor=None, depth=0, positive=False, optional=False):
        """one member for a join of the given kind; `used` = {"sh": sids borrowed shared, "ex": sids
        borrowed exclusively, "csh"/"cex": the same for change-set slots}.  `anchor` is a handle the
        join should (probably) yield; below a `maybe` (optional) it is ignored.  Returns None if the
        drawn kind is not available (the caller draws again)."""
        rng = self.rng
        focus = self.focus
        w = {M_READ: 20, M_WRITE: 16, M_ENTS: 10, M_BITS: 6, M_ANTI: 8, M_MAYBE: 14, M_RESTR: 8, M_CS: 3, M_DRAIN: 2, M_BITOP: 6}
        if focus == "restrict":
            w[M_RESTR] = 45
        elif focus == "changeset":
            w[M_CS] = 40
        elif focus == "par":
            w[M_WRITE], w[M_RESTR] = 22, 14
        if positive:
            w[M_ANTI] = w[M_MAYBE] = 0
        if depth >= 2:
            w[M_MAYBE] = 0
        if optional:
            anchor = None
        kinds = list(w)
        code = rng.choices(kinds, [w[k] for k in kinds])[0]
        free = [s for s in self.regs if s not in used["sh"] and s not in used["ex"]]
        sharable = [s for s in self.regs if s not in used["ex"]]
        if code == M_READ:
            if not sharable:
                return None
            sid = self.pick_sid(sharable, anchor, True)
            if sid is None:
                return None
            used["sh"].add(sid)
            return [0, sid]
        if code == M_WRITE:
            ok = [s for s in free if write_ok(kind, s)]
            if not ok:
                return None
            sid = self.pick_sid(ok, anchor, True)
            if sid is None:
                return None
            used["ex"].add(sid)
            touch, write = rng.choice([(0, 0), (1, 0), (0, 1), (0, 1), (1, 1)])
            return [1, sid, touch, write, self.delta(sid)]
        if code == M_ENTS:
            return [2]
        if code == M_BITS:
            n = rng.randint(0, 9)
            xs = set(self.some_index() for _ in range(n))
            if anchor is not None:
                if anchor >= self.n0 and rng.random() < 0.8:
                    return None         # the index of a later entity is not known here
                if rng.random() < 0.9:
                    xs.add(anchor)
            xs = sorted(xs)
            if rng.random() < 0.5:
                rng.shuffle(xs)
            return [3, len(xs)] + xs
        if code == M_BITOP:
            # a combination of two bit sets: and / or / xor (finite, positive) or not (like a negated storage)
            op = rng.choice([0, 1, 2]) if positive else rng.choice([0, 1, 2, 3])
            a = set(self.some_index() for _ in range(rng.randint(0, 8)))
            b = set(self.some_index() for _ in range(rng.randint(0, 8)))
            if anchor is not None and anchor < self.n0:
                if op == 0:
                    a.add(anchor); b.add(anchor)
                elif op == 1:
                    (a if rng.random() < 0.5 else b).add(anchor)
                elif op == 2:
                    a.add(anchor); b.discard(anchor)
                else:
                    a.discard(anchor)
            elif anchor is not None and op != 3 and rng.random() < 0.8:
                return None
            a, b = sorted(a), sorted(b)
            return [9, op, len(a)] + a + [len(b)] + b
        if code == M_ANTI:
            if not sharable:
                return None
            sid = self.pick_sid(sharable, anchor, False)
            if sid is None:
                return None
            used["sh"].add(sid)
            return [4, sid]
        if code == M_MAYBE:
            inner = self.member(kind, used, None, depth + 1, optional=True)
            return None if inner is None else [5] + inner
        if code == M_RESTR:
            mode = rng.choice([0, 0, 1, 1, 1, 2])
            if mode == 0:
                if not sharable:
                    return None
                sid = self.pick_sid(sharable, anchor, True)
                if sid is None:
                    return None
                used["sh"].add(sid)
            else:
                ok = [s for s in free if mode == 2 or write_ok(kind, s)]
                if not ok:
                    return None
                sid = self.pick_sid(ok, anchor, True)
                if sid is None:
                    return None
                used["ex"].add(sid)
            selmod = rng.choice([1, 1, 2, 2, 3, 5, 64])
            selrem = rng.randrange(selmod) if rng.random() < 0.9 else selmod
            no = rng.choice([0, 0, 1, 2, 3, 4]) if focus == "restrict" else rng.choice([0, 0, 0, 1, 2])
            hs = []
            for _ in range(no):
                # owners of this very component (live, or stale by now), then anything
                own = sorted(self.owners(sid))
                hs.append(rng.choice(own) if (own and rng.random() < 0.5) else self.some_handle())
            return [6, sid, mode, selmod, selrem, self.delta(sid), no] + hs
        if code == M_CS:
            if kind == K_PAR:
                return None
            modes = [0, 0, 1, 1] + ([2] if kind in (K_JOIN, K_LEND) else [])
            mode = rng.choice(modes)
            if mode == 0:
                ok = [c for c in range(4) if c not in used["cex"]]
            else:
                ok = [c for c in range(4) if c not in used["cex"] and c not in used["csh"]]
                if mode == 1:
                    ok = [c for c in ok if self.cs_depth[c] < CS_BUDGET]
            if not ok:
                return None
            if anchor is not None and rng.random() < 0.85:
                good = [c for c in ok if anchor in self.cs_has[c]]
                if not good and rng.random() < 0.8:
                    return None
                ok = good or ok
            elif not optional and rng.random() < 0.8:
                ok = [c for c in ok if self.cs_has[c]] or ok
            cs = rng.choice(ok)
            if mode == 0:
                used["csh"].add(cs)
            else:
                used["cex"].add(cs)
                self.cs_depth[cs] = self.cs_depth[cs] + 1 if mode == 1 else 0
            return [7, cs, mode, rng.randint(-9, 9)]
        if code == M_DRAIN:
            if kind not in (K_JOIN, K_LEND) or not free:
                return None
            sid = self.pick_sid(free, anchor, True)
            if sid is None:
                return None
            used["ex"].add(sid)
            return [8, sid]
        return None

    def pick_anchor(self):
        """a live handle with a known index that owns something: the join is built around it"""
        rng = self.rng
        if rng.random() < 0.15:
            return None
        live = set(self.live)
        cands = [h for h in self.hot if h in live and any(h in s for s in self.has.values())]
        if self.focus == "changeset" and rng.random() < 0.6:
            in_slots = [h for h in cands if any(h in c for c in self.cs_has)]
            cands = in_slots or cands
        known = [h for h in cands if h < self.n0]
        if known and rng.random() < 0.8:
            return rng.choice(known)
        return rng.choice(cands) if cands else None

    def join_op(self, kind=None):
        rng = self.rng
        focus = self.focus
        self.sync()
        if kind is None:
            if focus == "par":
                kind = rng.choices([K_PAR, K_JOIN, K_LEND, K_GET, K_GETU], [70, 12, 10, 4, 4])[0]
            elif focus == "restrict":
                kind = rng.choices([K_JOIN, K_LEND, K_PAR, K_GET, K_GETU], [30, 34, 12, 12, 12])[0]
            else:
                kind = rng.choices([K_JOIN, K_LEND, K_PAR, K_GET, K_GETU], [38, 32, 8, 11, 11])[0]
        nm = rng.choices([1, 2, 3, 4, 5, 6, 7, 8], [14, 24, 20, 14, 10, 7, 5, 6])[0]
        anchor = self.pick_anchor()
        used = {"sh": set(), "ex": set(), "csh": set(), "cex": set()}
        members = []
        loose = rng.random() < 0.2
        # one finite positive member first (so that the join is never unconstrained), then anything
        tries = 0
        while len(members) < nm and tries < 300:
            tries += 1
            # a lookup (by entity / by index) needs no member that bounds the iteration: one in five is made of
            # optional and negated members only
            need_pos = len(members) == 0 and not (kind in (K_GET, K_GETU) and loose)
            m = self.member(kind, used, anchor, positive=need_pos)
            if m is not None and loose and kind in (K_GET, K_GETU) and m[0] not in (M_MAYBE, M_ANTI):
                m = None
            if m is not None:
                members.append(m)
        if not members:
            members = [[2]]
        # the positive member need not come first in the tuple
        if rng.random() < 0.6:
            rng.shuffle(members)
        if kind == K_JOIN:
            arg = -1 if rng.random() < 0.7 else rng.randint(0, 5)
        elif kind == K_LEND:
            arg = rng.choice([-1, -1, -2, -2, rng.randint(0, 5)])
        elif kind == K_PAR:
            arg = rng.choice(POOLS)
            if rng.random() < 0.2:
                # the consumer of each item runs a parallel join itself (on the same pool)
                arg = 1024 + rng.choice([1, 1, 2, 3, 8])
        elif kind == K_GET:
            arg = anchor if (anchor is not None and rng.random() < 0.7) else self.some_handle()
        else:
            arg = anchor if (anchor is not None and anchor < self.n0 and rng.random() < 0.7) else self.some_index()
        payload = [kind, arg, len(members)]
        for m in members:
            payload += m
        op = (JOIN, payload)
        touched = sorted(used["ex"])
        return op, touched, sorted(used["cex"])

    def wide_par_join(self):
        """a parallel join over a bit set with one member in each of several hundred words (so that the producer can be
        halved nine or ten times in one lineage) on a pool large enough to ask for that many splits"""
        rng = self.rng
        n = rng.randint(520, 700)
        xs = sorted(64 * k + rng.randrange(64) for k in rng.sample(range(0, 1200), n))
        members = [[M_BITS, len(xs)] + xs]
        if rng.random() < 0.4:
            ys = sorted(set(xs[::rng.choice([1, 2, 3])] + [64 * rng.randrange(1200) for _ in range(20)]))
            members.append([M_BITS, len(ys)] + ys)
        payload = [K_PAR, rng.choice([300, 512, 600]), len(members)]
        for m in members:
            payload += m
        return (JOIN, payload)

    def observe(self, sids, slots=()):
        """make the effect of a mutating join visible"""
        rng = self.rng
        for sid in sids:
            self.hist.append((sg.MSK, [sid]))
            hs = [h for h in self.hot if rng.random() < 0.5][:4]
            for h in hs:
                self.hist.append((sg.GET, [sid, h]))
            if sid >= 6 and self.readers.get(sid) and rng.random() < 0.8:
                self.hist.append((sg.RREAD, [sid, rng.randrange(self.readers[sid])]))
        for c in slots:
            self.hist.append((CSDUMP, [c]))

    # ------------------------------------------------------------------ change sets
    def cs_handle(self):
        rng = self.rng
        live_hot = [h for h in self.hot if h in self.live]
        if live_hot and rng.random() < 0.7:
            return rng.choice(live_hot)
        return self.some_handle()

    def cs_op(self):
        rng = self.rng
        c = rng.randrange(4)
        if self.cs_depth[c] >= CS_BUDGET:
            self.hist.append((rng.choice([CSNEW, CSCLEAR]), [c]))
            self.cs_depth[c] = 0
            return
        r = rng.random()
        if r < 0.35 and self.nh:
            self.hist.append((CSADD, [c, self.cs_handle(), rng.randint(-20, 20)]))
            self.cs_depth[c] += 1
        elif r < 0.55 and self.nh:
            n = rng.randint(0, 6)
            pairs = []
            for _ in range(n):
                # repeated entities on purpose: the amounts of one entity are combined in order
                h = self.cs_handle() if (not pairs or rng.random() < 0.6) else rng.choice(pairs[::2])
                pairs += [h, rng.randint(-20, 20)]
            self.hist.append((CSCOLLECT, [c, n] + pairs))
            self.cs_depth[c] = n
        elif r < 0.75 and self.nh:
            n = rng.randint(0, min(5, CS_BUDGET - self.cs_depth[c]))
            pairs = []
            for _ in range(n):
                h = self.cs_handle() if (not pairs or rng.random() < 0.6) else rng.choice(pairs[::2])
                pairs += [h, rng.randint(-20, 20)]
            self.hist.append((CSEXTEND, [c, n] + pairs))
            self.cs_depth[c] += n
        elif r < 0.80:
            self.hist.append((CSNEW, [c]))
            self.cs_depth[c] = 0
        elif r < 0.85:
            self.hist.append((CSCLEAR, [c]))
            self.cs_depth[c] = 0
            live_hot = [h for h in self.hot if h in self.live]
            if len(live_hot) >= 3 and rng.random() < 0.5:
                # the cleared set is refilled in shuffled order and then consumed by value (what the backing storage
                # kept from before the clear must not matter)
                hs = rng.sample(live_hot, min(len(live_hot), rng.randint(3, 6)))
                pairs = []
                for h in hs:
                    pairs += [h, rng.randint(-20, 20)]
                self.hist.append((CSEXTEND, [c, len(hs)] + pairs))
                self.cs_depth[c] = len(hs)
                kind = rng.choice([K_JOIN, K_LEND])
                self.hist.append((JOIN, [kind, -1, 2, M_CS, c, 2, 0, M_ENTS]))
                self.cs_depth[c] = 0
        else:
            self.hist.append((CSDUMP, [c]))

    # ------------------------------------------------------------------ direct operations
    def direct_op(self):
        """Insert / Remove / Get / GetMut / Mask / Contains on a hot handle, sometimes anything"""
        rng = self.rng
        r = rng.random()
        if r < 0.15:
            self.storage_op()
            return
        if r < 0.30:
            self.refill()
            return
        sid = rng.choice(self.regs)
        h = self.some_handle()
        k = rng.random()
        if k < 0.35:
            u, v = self.tok(sid)
            self.hist.append((sg.INS, [sid, h, u, v]))
        elif k < 0.55:
            self.hist.append((sg.REM, [sid, h]))
        elif k < 0.70:
            self.hist.append((sg.GET, [sid, h]))
        elif k < 0.80:
            self.hist.append((sg.GETM, [sid, h, rng.randint(0, 1), rng.randint(0, 1), self.delta(sid)]))
        elif k < 0.93:
            self.hist.append((sg.MSK, [sid]))
        else:
            self.hist.append((sg.CONT, [sid, h]))

    def life_op(self):
        rng = self.rng
        k = rng.random()
        if k < 0.35:
            self.hist.append((wg.C, self.comps(3)))
            self.hot.append(self.nh)
            self.created(1)
        elif k < 0.45:
            self.creation()
        elif k < 0.70 and self.nh:
            h = self.some_handle()
            self.hist.append((rng.choice([wg.D, wg.ED]), [h]))
            self.kill(h)
        elif k < 0.80 and self.nh:
            batch = list(dict.fromkeys(self.some_handle() for _ in range(rng.randint(1, 3))))
            self.hist.append((wg.DM, batch))
            for h in batch:
                self.kill(h)
        elif k < 0.87 and self.dead and [h for h in self.hot if h in self.live]:
            # a batch that fails part-way: component owners first, then a handle that is already dead
            owners = [h for h in self.hot if h in self.live]
            pre = rng.sample(owners, min(len(owners), rng.randint(1, 2)))
            self.hist.append((wg.DM, pre + [rng.choice(self.dead)] + ([self.some_handle()] if rng.random() < 0.3 else [])))
            for h in pre:
                self.kill(h)
        else:
            self.hist.append((wg.M, []))

    def reader_op(self):
        rng = self.rng
        tracked = [s for s in self.regs if s >= 6]
        if not tracked:
            return
        sid = rng.choice(tracked)
        if rng.random() < 0.25:
            # the emission switch (storage-event-control): joins must honour it too
            self.hist.append((sg.SEMIT, [sid, rng.choice([0, 0, 1])]))
            return
        if sid not in self.readers or rng.random() < 0.15:
            self.hist.append((sg.RREG, [sid]))
            self.readers[sid] = self.readers.get(sid, 0) + 1
        else:
            self.hist.append((sg.RREAD, [sid, rng.randrange(self.readers[sid])]))


def pick_sids(rng, focus):
    n = rng.randint(2, 5)
    plain, flagged, deref = list(range(0, 6)), list(range(6, 11)) + [16], list(range(11, 16)) + [17]
    if focus == "par":
        # mostly the storages that have the mutable ParJoin; the others are joined read-only
        sids = rng.sample(plain, min(n, rng.randint(2, 4)))
        while len(sids) < n:
            s = rng.randrange(sg.NSIDS)
            if s not in sids:
                sids.append(s)
    elif focus == "restrict":
        sids = [rng.choice(flagged + deref), rng.choice(plain + flagged)]
        sids = list(dict.fromkeys(sids))
        while len(sids) < n:
            s = rng.choice(plain + flagged + deref + flagged + deref)
            if s not in sids:
                sids.append(s)
    else:
        sids = [rng.choice(plain), rng.choice(flagged + deref)]
        while len(sids) < n:
            s = rng.randrange(sg.NSIDS)
            if s not in sids:
                sids.append(s)
    rng.shuffle(sids)
    return sids


def anti_block_history(rng):
    """a storage with at least one component in every 64-index word of a whole 4096-index block (but far from full),
    joined negated - sequentially, lending and in parallel - with the entities and with bit sets: the holes of such a
    block must all be delivered"""
    g = JGen(rng, "par")
    sid = rng.choice([0, 1, 2, 3, 4])
    other = rng.choice([s for s in range(6) if s != sid])
    g.register(sid)
    g.register(other)
    n = rng.choice([4100, 4160, 8200])
    g.hist.append((wg.CI, [n]))
    g.created(n)
    g.n0 = n
    base = 4096 if n >= 8200 and rng.random() < 0.5 else 0
    for w in range(64):
        for h in sorted(set(base + 64 * w + rng.randrange(64) for _ in range(rng.randint(1, 2)))):
            u, v = g.tok(sid)
            g.hist.append((sg.INS, [sid, h, u, v]))
    holes = sorted(set(base + rng.randrange(4096) for _ in range(40)))
    for h in holes[::2]:
        u, v = g.tok(other)
        g.hist.append((sg.INS, [other, h, u, v]))
    for kind, arg in ((K_PAR, rng.choice([2, 4, 8])), (K_JOIN, -1), (K_PAR, 1024 + 2)):
        g.hist.append((JOIN, [kind, arg, 2, M_ANTI, sid, M_BITS, len(holes)] + holes))
        g.hist.append((JOIN, [kind, arg, 2, M_ANTI, sid, M_READ, other]))
    g.hist.append((JOIN, [K_PAR, 4, 3, M_ANTI, sid, M_ENTS, M_BITS, len(holes)] + holes))
    g.hist.append((sg.DROPW, []))
    return g.hist


def hash_stress_history(rng):
    """several thousand components in a hash-map storage, fetched and written through the mutable restricted view by a
    parallel join on many threads, several times over: every item looks its own index up twice (get, then get_mut)
    while other workers do the same for theirs"""
    g = JGen(rng, "par")
    sid = 3
    g.register(sid)
    n = rng.choice([1500, 3000])
    g.hist.append((wg.CI, [n]))
    g.created(n)
    g.n0 = n
    for h in range(n):
        u, v = g.tok(sid)
        g.hist.append((sg.INS, [sid, h, u, v]))
    for _ in range(rng.randint(3, 6)):
        g.hist.append((JOIN, [K_PAR, rng.choice([8, 16, 32]), 1, M_RESTR, sid, 1, 1, 0, rng.randint(1, 9), 0]))
    g.hist.append((JOIN, [K_JOIN, -1, 1, M_READ, sid]))
    g.hist.append((sg.DROPW, []))
    return g.hist


def join_history(rng, length, focus="join"):
    assert focus in FOCI
    g = JGen(rng, focus)
    sids = pick_sids(rng, focus)
    if rng.random() < 0.5 and not any(x in sids for x in (1, 7)):
        sids[rng.randrange(len(sids))] = rng.choice([1, 7])     # a dense storage (plain / flagged)
    for sid in sids:
        g.register(sid)
        if sid >= 6 and (focus == "restrict" or rng.random() < 0.5):
            for _ in range(rng.randint(1, 2)):
                g.hist.append((sg.RREG, [sid]))
                g.readers[sid] = g.readers.get(sid, 0) + 1
    if rng.random() < 0.12:
        g.populate_packed()
    else:
        g.populate()
    if focus == "changeset":
        for _ in range(rng.randint(2, 5)):
            g.cs_op()
    start = len(g.hist)
    p_join = {"join": 0.50, "par": 0.50, "restrict": 0.50, "changeset": 0.38}[focus]
    p_cs = {"join": 0.03, "par": 0.0, "restrict": 0.0, "changeset": 0.27}[focus]
    if focus == "par" and rng.random() < 0.03:
        g.hist.append(g.wide_par_join())
    while len(g.hist) - start < length:
        r = rng.random()
        if r < p_join:
            op, touched, slots = g.join_op()
            if focus == "join" and rng.random() < 0.04:
                # the same join run by a lazy closure during the next maintain
                g.hist.append((sg.LEXEC, sg.encode_ops([op])))
                g.hist.append((wg.M, []))
            else:
                g.hist.append(op)
            if (touched or slots) and rng.random() < 0.7:
                g.observe(touched, slots)
        elif r < p_join + p_cs:
            g.cs_op()
        elif r < p_join + p_cs + 0.22:
            g.direct_op()
        elif r < p_join + p_cs + 0.34:
            g.life_op()
        elif r < p_join + p_cs + 0.42:
            g.reader_op()
        elif r < p_join + p_cs + 0.45 and rng.random() < 0.5:
            g.stale_round()
        elif r < p_join + p_cs + 0.49:
            g.fresh_round()
        else:
            g.direct_op()
    # final observations
    for sid, n in sorted(g.readers.items()):
        for k in range(n):
            g.hist.append((sg.RREAD, [sid, k]))
    for sid in g.regs:
        g.hist.append((sg.MSK, [sid]))
    if focus in ("changeset", "join"):
        for c in range(4):
            g.hist.append((CSDUMP, [c]))
    g.hist.append((wg.JE, []))
    g.hist.append((sg.DROPW, []))
    return g.hist


# ---------------------------------------------------------------------- pretty printing

KIND_NAMES = {0: "join", 1: "lend_join", 2: "par_join", 3: "lend_get", 4: "lend_get_unchecked"}


def _sname(sid):
    return "S%d" % sid


def parse_member(p, i):
    """-> (text, next position)"""
    code = p[i]
    if code == 0:
        return "&%s" % _sname(p[i + 1]), i + 2
    if code == 1:
        sid, touch, write, delta = p[i + 1:i + 5]
        fl = ("t" if touch else "") + ("w%+d" % delta if write else "")
        return "&mut %s{%s}" % (_sname(sid), fl), i + 5
    if code == 2:
        return "&entities", i + 1
    if code == 3:
        n = p[i + 1]
        return "&bits{%s}" % ",".join(str(x) for x in p[i + 2:i + 2 + n]), i + 2 + n
    if code == 4:
        return "!&%s" % _sname(p[i + 1]), i + 2
    if code == 5:
        t, j = parse_member(p, i + 1)
        return "%s.maybe()" % t, j
    if code == 6:
        sid, mode, selmod, selrem, delta, no = p[i + 1:i + 7]
        hs = p[i + 7:i + 7 + no]
        how = {0: "&%s.restrict()", 1: "&mut %s.restrict_mut()", 2: "&%s.restrict_mut()"}[mode] % _sname(sid)
        return "%s{i%%%d==%d:%+d; others=%s}" % (how, selmod, selrem, delta, hs), i + 7 + no
    if code == 7:
        cs, mode, delta = p[i + 1:i + 4]
        return {0: "&cs%d", 1: "&mut cs%d{%+d}", 2: "take(cs%d)"}[mode] % ((cs, delta) if mode == 1 else (cs,)), i + 4
    if code == 8:
        return "%s.drain()" % _sname(p[i + 1]), i + 2
    if code == 9:
        op, na = p[i + 1], p[i + 2]
        a = p[i + 3:i + 3 + na]
        nb = p[i + 3 + na]
        b = p[i + 4 + na:i + 4 + na + nb]
        sa, sb = "bits{%s}" % ",".join(map(str, a)), "bits{%s}" % ",".join(map(str, b))
        return {0: "(&%s & &%s)", 1: "(&%s | &%s)", 2: "(&%s ^ &%s)"}.get(op, "!&%s%.0s") % (sa, sb), i + 4 + na + nb
    raise ValueError("member code %r" % code)


def pretty_join(p):
    try:
        kind, arg, nm = p[0:3]
        i, ms = 3, []
        for _ in range(nm):
            t, i = parse_member(p, i)
            ms.append(t)
        return "Join[%s %d](%s%s)" % (KIND_NAMES.get(kind, kind), arg, ", ".join(ms), "," if nm == 1 else "")
    except (IndexError, ValueError, KeyError):
        return "Join(" + ",".join(str(x) for x in p) + ")"


wg.PRETTY_HOOKS[JOIN] = pretty_join
