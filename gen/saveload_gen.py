"""Generators for the `saveload` domain (properties C14 / C15).

A history is a list of ops; an op is (code, [payload ints]); one line
`code n x1..xn code n x1..xn ...` (same encoding as world_gen).  The decoder
that gives the ops their meaning is coq/theories/SaveLoad/SLOps.v (`dec_op`):

  1 [pend]            Create            world.create_entity().build() / entities.create()
  2 [h k 1 z]         Insert plain      2 [h k 2 r]  Insert a reference to handle r
  3 [h k]             Remove
  4 [h]               Mark              allocator.mark (skipped in the UuidMarker variant)
  5 [h id]            MarkId            allocate(e, Some(id)) + markers.insert
  6 [h] / 7 [h]       Delete / EDelete  world.delete_entity / entities.delete
  8 [] / 9 []         Maintain / AllocMaintain
  10 [fmt] / 11 [fmt] Serialize / SerializeRec (11 skipped in the UuidMarker variant)
  12 [fmt rec..]      Deser, literal data; a record is  id slot slot slot,  slot = 0 | 1 z | 2 m
  13 [fmt k]          Load the k-th saved data (modulo the number saved so far)
  14 []               Swap the two worlds
  15 [h..]            DeleteMany        world.delete_entities (fails at the first handle that is not alive)

Handles are positions into the list of entities seen so far in the current
world, taken modulo its length.  Handle positions, k of Load and record counts
become unary `nat` in the model: keep them small (below a few hundred).  fmt: 0 serde_json, 2 pretty RON, other RON.
All random choices derive from one random.Random."""
import itertools
import random

CREATE, INSERT, REMOVE, MARK, MARKID, DELETE, EDELETE, MAINTAIN, AMAINTAIN = 1, 2, 3, 4, 5, 6, 7, 8, 9
SER, SERREC, DESER, LOAD, SWAP, DELMANY = 10, 11, 12, 13, 14, 15

NAMES = {1: "Create", 2: "Insert", 3: "Remove", 4: "Mark", 5: "MarkId", 6: "Delete", 7: "EDelete",
         8: "Maintain", 9: "AllocMaintain", 10: "Serialize", 11: "SerializeRec", 12: "Deser", 13: "Load",
         14: "Swap", 15: "DeleteMany"}
NCOMP = 3
FORMATS = (0, 1, 2)
MAX_ENTS = 60

# MarkId ids: FRESH_BASE * (per-history counter).  Never equal to an id produced by Mark (the counter
# of SimpleMarkerAllocator would need 10^6 Marks after a MarkId to reach the next one), never in the
# small range used by literal data, never in the huge range.
FRESH_BASE = 10 ** 6
SMALL_IDS = 14
HUGE_LO, HUGE_HI = 2 ** 33, 2 ** 40


# ------------------------------------------------------------------ encoding

def encode(hist):
    out = []
    for code, p in hist:
        out.append(code)
        out.append(len(p))
        out.extend(p)
    return " ".join(str(x) for x in out)


def decode(line):
    xs = [int(t) for t in line.split()]
    i, hist = 0, []
    while i + 1 < len(xs):
        code, n = xs[i], xs[i + 1]
        hist.append((code, xs[i + 2:i + 2 + n]))
        i += 2 + n
    return hist


# saved data in python: a list of records (id, [slot, slot, slot]); slot = None | ("p", z) | ("r", marker id)

def enc_slot(s):
    if s is None:
        return [0]
    return [1, s[1]] if s[0] == "p" else [2, s[1]]


def enc_records(recs):
    out = []
    for m, slots in recs:
        out.append(m)
        for s in slots:
            out.extend(enc_slot(s))
    return out


def dec_records(xs):
    """`dec_data` of SLOps.v; None if the payload is not a sequence of records"""
    recs, i, n = [], 0, len(xs)
    while i < n:
        m = max(xs[i], 0)
        i += 1
        slots = []
        for _ in range(NCOMP):
            if i >= n:
                return None
            t = xs[i]
            if t == 0:
                slots.append(None)
                i += 1
            elif t == 1 and i + 1 < n:
                slots.append(("p", xs[i + 1]))
                i += 2
            elif t == 2 and i + 1 < n:
                slots.append(("r", max(xs[i + 1], 0)))
                i += 2
            else:
                return None
        recs.append((m, slots))
    return recs


def deser_op(fmt, recs):
    return (DESER, [fmt] + enc_records(recs))


def _pslot(s):
    if s is None:
        return "-"
    return ("P%d" if s[0] == "p" else "R%d") % s[1]


def pretty(hist):
    parts = []
    for code, p in hist:
        nm = NAMES.get(code, "op%d" % code)
        if code == INSERT and len(p) == 4 and p[2] in (1, 2):
            parts.append("Insert(h%d,k%d,%s)" % (p[0], p[1], ("P%d" % p[3]) if p[2] == 1 else ("R->h%d" % p[3])))
        elif code == DESER and p:
            recs = dec_records(p[1:])
            if recs is None:
                parts.append("Deser(" + ",".join(map(str, p)) + ")")
            else:
                parts.append("Deser(fmt%d; %s)" % (p[0], "; ".join(
                    "%d:[%s]" % (m, ",".join(_pslot(s) for s in sl)) for m, sl in recs)))
        else:
            parts.append(nm + ("(" + ",".join(str(x) for x in p) + ")" if p else ""))
    return "; ".join(parts)


# ------------------------------------------------------------------ building blocks

class Builder:
    """the op list under construction + what the generator knows for certain"""

    def __init__(self, rng, uuid):
        self.rng, self.uuid = rng, uuid
        self.ops = []
        self.fresh = 0          # per-history counter behind MarkId ids
        self.nsaved = 0         # serialisations issued so far (each appends one saved data unless it panics)
        self.issued = []        # MarkId ids already issued (may be mentioned by later literal data)

    def fresh_id(self):
        self.fresh += 1
        x = FRESH_BASE * self.fresh
        self.issued.append(x)
        return x

    def add(self, code, *p):
        self.ops.append((code, list(p)))

    def ser(self, fmt, rec=False):
        """returns the position of the saved data this op will append"""
        if rec and self.uuid:
            rec = False
        self.add(SERREC if rec else SER, fmt)
        self.nsaved += 1
        return self.nsaved - 1

    def load(self, fmt, k):
        # any k congruent to the position modulo the number saved so far
        self.add(LOAD, fmt, k + self.nsaved * self.rng.choice([0, 0, 0, 1, 3]))


def rand_plain(rng):
    r = rng.random()
    if r < 0.6:
        return rng.randint(-9, 99)
    if r < 0.8:
        return rng.randint(-2 ** 31, 2 ** 31)
    return rng.choice([-1, 1]) * rng.randint(2 ** 40, 2 ** 60)


def pick_n(rng, max_n=MAX_ENTS):
    r = rng.random()
    if r < 0.45:
        return rng.randint(1, 5)
    if r < 0.80:
        return rng.randint(4, 14)
    if r < 0.94:
        return rng.randint(10, 30)
    return rng.randint(25, max_n)


class WorldDesc:
    """a world built with Create / Insert / Mark / MarkId only, in a FRESH world: handle k is the
    k-th created entity and has index k, generation 1"""

    def __init__(self, n):
        self.n = n
        self.marker = {}        # handle -> marker id
        self.comps = {}         # (handle, k) -> ("p", z) | ("r", handle)
        self.index = 0          # SimpleMarkerAllocator.index (meaningless for uuid)

    def copy(self):
        w = WorldDesc(self.n)
        w.marker, w.comps, w.index = dict(self.marker), dict(self.comps), self.index
        return w


def build_world(b, n, ref_policy="marked", p_mark=None, p_comp=None, p_ref=None, redundant=True):
    """appends the ops building a world of n entities to b.ops; returns its WorldDesc.
    ref_policy "marked": references only to marked entities (plain serialize works);
    "any": references to any entity (serialize_recursive marks what it reaches)."""
    rng = b.rng
    w = WorldDesc(n)
    p_mark = rng.choice([0.0, 0.3, 0.6, 0.9, 1.0]) if p_mark is None else p_mark
    p_comp = rng.choice([0.2, 0.5, 0.8, 1.0]) if p_comp is None else p_comp
    p_ref = rng.choice([0.0, 0.3, 0.6, 1.0]) if p_ref is None else p_ref
    marked = [h for h in range(n) if rng.random() < p_mark]
    if not marked and p_mark > 0:
        marked = [rng.randrange(n)]
    pool = marked if ref_policy == "marked" else list(range(n))
    pending = []                 # (need = handles that must exist, op kind, args)
    for h in marked:
        pending.append((h + 1, "mark", (h,)))
        if redundant and rng.random() < 0.08:
            pending.append((h + 1, "mark", (h,)))      # marking twice: the second returns the first's id
    for h in range(n):
        for k in range(NCOMP):
            if rng.random() >= p_comp:
                continue
            if pool and rng.random() < p_ref:
                r = rng.random()
                if r < 0.12:
                    t = h if h in pool else rng.choice(pool)          # self loop
                elif r < 0.30 and h + 1 < n:
                    later = [x for x in pool if x > h]
                    t = rng.choice(later) if later else rng.choice(pool)   # a later-created entity
                else:
                    t = rng.choice(pool)
                pending.append((max(h, t) + 1, "ins", (h, k, ("r", t))))
            else:
                pending.append((h + 1, "ins", (h, k, ("p", rand_plain(rng)))))
    if n >= 2 and rng.random() < 0.5 and pool:
        # a planted cycle a -> b -> a
        a, c = rng.choice(pool), rng.choice(pool)
        k1, k2 = rng.randrange(NCOMP), rng.randrange(NCOMP)
        pending.append((max(a, c) + 1, "ins", (a, k1, ("r", c))))
        pending.append((max(a, c) + 1, "ins", (c, k2, ("r", a))))
    rng.shuffle(pending)
    interleave = rng.random() < 0.5
    created = 0

    def emit(item):
        _, kind, args = item
        if kind == "mark":
            h, = args
            if h in w.marker:
                b.add(MARK if not b.uuid else MARKID, *([h] if not b.uuid else [h, b.fresh_id()]))
                return
            if b.uuid or rng.random() < 0.2:
                m = b.fresh_id()
                b.add(MARKID, h, m)
                w.marker[h] = m
                if m >= w.index:
                    w.index = m + 1
            else:
                b.add(MARK, h)
                w.marker[h] = w.index
                w.index += 1
        else:
            h, k, v = args
            b.add(INSERT, h, k, 1 if v[0] == "p" else 2, v[1])
            w.comps[(h, k)] = v          # a later insert into the same slot overwrites

    if not interleave:
        for _ in range(n):
            b.add(CREATE, rng.choice([0, 0, 1]))
        for it in pending:
            emit(it)
    else:
        while created < n or pending:
            ready = [i for i, it in enumerate(pending) if it[0] <= created]
            if created < n and (not ready or rng.random() < 0.4):
                b.add(CREATE, rng.choice([0, 0, 1]))
                created += 1
            else:
                emit(pending.pop(rng.choice(ready)))
    return w


def conv(w, slot, marker):
    if slot is None or slot[0] == "p":
        return slot
    m = marker.get(slot[1])
    return None if m is None else ("r", m)


def expected_plain(w):
    """records `serialize` produces for w, or None if it panics (reference to an unmarked entity)"""
    recs = []
    for h in sorted(w.marker):
        slots = []
        for k in range(NCOMP):
            s = w.comps.get((h, k))
            c = conv(w, s, w.marker)
            if s is not None and c is None:
                return None
            slots.append(c)
        recs.append((w.marker[h], slots))
    return recs


def expected_rec(w):
    """records `serialize_recursive` produces for w (SimpleMarker); updates w.marker / w.index"""
    todo = sorted(w.marker)
    recs = []
    while todo:
        add = []
        for h in todo:
            slots = []
            for k in range(NCOMP):
                s = w.comps.get((h, k))
                if s is not None and s[0] == "r":
                    t = s[1]
                    if t not in w.marker:
                        w.marker[t] = w.index
                        w.index += 1
                        add.append(t)
                    slots.append(("r", w.marker[t]))
                else:
                    slots.append(s)
            recs.append((w.marker[h], slots))
        todo = add
    return recs


def two_formats(rng):
    a = rng.choice(FORMATS)
    c = rng.choice([f for f in FORMATS if f != a])
    return a, c


def shuffled_records(rng, recs):
    recs = list(recs)
    r = rng.random()
    if r < 0.5:
        rng.shuffle(recs)
    elif r < 0.75:
        recs.reverse()
    else:
        # referrers first: every reference is a forward reference
        rng.shuffle(recs)
        recs.sort(key=lambda rc: -sum(1 for s in rc[1] if s is not None and s[0] == "r"))
    return recs


# ------------------------------------------------------------------ C14: round trips

def round_trip_history(rng, uuid=False, max_n=MAX_ENTS):
    b = Builder(rng, uuid)
    rec = (not uuid) and rng.random() < 0.35
    n = pick_n(rng, max_n)
    w = build_world(b, n, ref_policy="any" if rec else "marked",
                    p_ref=rng.choice([0.3, 0.6, 1.0]) if rng.random() < 0.7 else None)
    if rng.random() < 0.08 and w.marker:
        # planted panic: a marked entity refers to an unmarked / deleted entity; both sides must print 9
        h = rng.choice(sorted(w.marker))
        unmarked = [x for x in range(n) if x not in w.marker]
        if unmarked and not rec and rng.random() < 0.5:
            b.add(INSERT, h, rng.randrange(NCOMP), 2, rng.choice(unmarked))
        else:
            t = rng.choice([x for x in range(n) if x != h] or [h])
            b.add(INSERT, h, rng.randrange(NCOMP), 2, t)
            b.add(rng.choice([DELETE, DELETE, EDELETE]), t)
            if rng.random() < 0.7 or b.ops[-1][0] == EDELETE:
                b.add(MAINTAIN)
        b.ser(rng.choice(FORMATS), rec)
        b.add(SWAP)
        b.load(rng.choice(FORMATS), 0)
        return b.ops
    fa, fb = two_formats(rng)
    k0 = b.ser(fa, rec)
    b.ser(fb, rec and rng.random() < 0.5)
    recs = expected_rec(w) if rec else expected_plain(w)
    b.add(SWAP)
    literal = rng.random() < 0.4 and recs is not None
    if literal:
        b.ops.append(deser_op(rng.choice(FORMATS), shuffled_records(rng, recs)))
    else:
        b.load(rng.choice(FORMATS), k0 + rng.randint(0, 1))
    # follow-ups
    for _ in range(rng.choice([0, 1, 1, 2, 3])):
        r = rng.random()
        if r < 0.30:
            b.load(rng.choice(FORMATS), k0)                      # repeated load: nothing changes
        elif r < 0.45:
            b.add(rng.choice([MAINTAIN, AMAINTAIN]))
        elif r < 0.65:
            b.ser(rng.choice(FORMATS))                           # the copy serialises to the same records
        elif r < 0.85:
            b.add(SWAP)
            b.load(rng.choice(FORMATS), k0)                      # back into the source: in place
            b.add(SWAP)
        elif recs:
            b.ops.append(deser_op(rng.choice(FORMATS), shuffled_records(rng, recs)))
    return b.ops


# ------------------------------------------------------------------ C15: merges

def literal_data(rng, b, known_ids, index_guess, huge=None):
    """literal records: existing ids (in-place updates), unknown small ids (creations), `0` slots
    (removals), duplicate ids (last wins), references to ids without a record (bare entities),
    occasionally ids far above the counter"""
    nrec = rng.choice([1, 1, 2, 3, 4, 6])
    huge = (rng.random() < 0.2) if huge is None else huge
    pool = list(known_ids) + [rng.randint(0, max(index_guess + 3, 3)) for _ in range(2)]
    pool += b.issued[-3:]
    if huge:
        pool += [rng.randint(HUGE_LO, HUGE_HI) for _ in range(2)]
    ids = [rng.choice(pool) for _ in range(nrec)]
    if nrec >= 2 and rng.random() < 0.35:
        ids[rng.randrange(1, nrec)] = ids[0]                     # duplicate record for one id
    recs = []
    for m in ids:
        slots = []
        for _ in range(NCOMP):
            r = rng.random()
            if r < 0.40:
                slots.append(None)
            elif r < 0.70:
                slots.append(("p", rand_plain(rng)))
            else:
                q = rng.random()
                if q < 0.5:
                    t = rng.choice(ids)
                elif q < 0.8:
                    t = rng.choice(pool)
                elif q < 0.93 or not huge:
                    t = rng.randint(0, SMALL_IDS + index_guess)   # probably no record: a bare marked entity
                else:
                    t = rng.randint(HUGE_LO, HUGE_HI)
                slots.append(("r", t))
        recs.append((m, slots))
    return recs


def merge_history(rng, uuid=False):
    b = Builder(rng, uuid)
    n = rng.randint(2, 14) if rng.random() < 0.85 else rng.randint(10, 40)
    w = build_world(b, n, ref_policy="marked", p_mark=rng.choice([0.5, 0.8, 1.0]))
    nh = n                                   # handles seen in the current world (a guess once loads create)
    ids = sorted(set(w.marker.values()))     # ids held in the current world (a guess after deletions)
    live = set(range(n))
    dirty = False                            # a surviving marked entity may refer to a dead one
    saved_here = []                          # positions of data saved from this world
    other_fresh = True
    index_guess = 0 if uuid else w.index

    def referenced_by_survivors(h):
        return any(v[0] == "r" and v[1] == h and hh in live and hh != h and hh in w.marker
                   for (hh, _), v in w.comps.items())

    saved_here.append(b.ser(rng.choice(FORMATS)))
    for _ in range(rng.randint(2, 6)):
        r = rng.random()
        if r < 0.20:
            # delete some, with / without maintain and allocator maintain
            for _ in range(rng.randint(1, 3)):
                cands = sorted(live)
                if not cands:
                    break
                safe = [h for h in cands if not referenced_by_survivors(h)]
                h = rng.choice(safe) if (safe and rng.random() < 0.7) else rng.choice(cands)
                if referenced_by_survivors(h):
                    dirty = True
                b.add(rng.choice([DELETE, DELETE, EDELETE]), h)
                live.discard(h)
            if rng.random() < 0.6:
                b.add(MAINTAIN)
            if rng.random() < 0.5:
                b.add(AMAINTAIN)
        elif r < 0.32:
            # change components so that the load has something to restore / remove
            for _ in range(rng.randint(1, 4)):
                h = rng.randrange(max(nh, 1))
                if rng.random() < 0.6:
                    b.add(INSERT, h, rng.randrange(NCOMP), 1, rand_plain(rng))
                else:
                    b.add(REMOVE, h, rng.randrange(NCOMP))
        elif r < 0.44:
            # new entities (they reuse freed indices), newly marked
            for _ in range(rng.randint(1, 3)):
                b.add(CREATE, rng.choice([0, 1]))
                if rng.random() < 0.8:
                    if uuid or rng.random() < 0.2:
                        b.add(MARKID, nh, b.fresh_id())
                    else:
                        b.add(MARK, nh)
                        index_guess += 1
                if rng.random() < 0.6:
                    b.add(INSERT, nh, rng.randrange(NCOMP), 1, rand_plain(rng))
                nh += 1
        elif r < 0.62:
            # load data saved earlier (this world's or the other's); sometimes twice
            k = rng.randrange(b.nsaved)
            b.load(rng.choice(FORMATS), k)
            dirty = False
            nh += 2
            if rng.random() < 0.35:
                if rng.random() < 0.5:
                    b.add(rng.choice([MAINTAIN, AMAINTAIN]))
                b.load(rng.choice(FORMATS), k)
        elif r < 0.76:
            # data from the other world: ids collide => in-place updates + creations
            b.add(SWAP)
            if other_fresh and not uuid:
                build_world(b, rng.randint(1, 12), ref_policy="marked", p_mark=rng.choice([0.6, 1.0]))
            else:
                if other_fresh or rng.random() < 0.5:
                    b.load(rng.choice(FORMATS), rng.choice(saved_here))
                for _ in range(rng.randint(1, 4)):
                    q = rng.random()
                    if q < 0.5:
                        b.add(INSERT, rng.randrange(16), rng.randrange(NCOMP), 1, rand_plain(rng))
                    elif q < 0.7:
                        b.add(REMOVE, rng.randrange(16), rng.randrange(NCOMP))
                    elif q < 0.9:
                        b.add(CREATE, 0)
                        b.add(MARKID, rng.randrange(40), b.fresh_id()) if uuid else b.add(MARK, rng.randrange(40))
                    else:
                        b.add(DELETE, rng.randrange(16))
                        b.add(MAINTAIN)
            other_fresh = False
            k = b.ser(rng.choice(FORMATS))
            b.add(SWAP)
            b.load(rng.choice(FORMATS), k)
            nh += 2
            dirty = False
        elif r < 0.90:
            recs = literal_data(rng, b, ids, index_guess)
            b.ops.append(deser_op(rng.choice(FORMATS), recs))
            for m, _ in recs:
                if m not in ids:
                    ids.append(m)
            big = max([m for m, _ in recs] + [0])
            if big >= index_guess:
                index_guess = big + 1
            nh += 2
            if not uuid:
                # the counter must have jumped above every id just loaded
                for _ in range(rng.randint(1, 2)):
                    b.add(CREATE, rng.choice([0, 1]))
                    b.add(MARK, rng.randrange(max(nh + 2, 1)))
                    nh += 1
        else:
            # marking again / marking the dead
            h = rng.randrange(max(nh, 1))
            b.add(MARKID, h, b.fresh_id()) if uuid else b.add(MARK, h)
        if not dirty and rng.random() < 0.3:
            saved_here.append(b.ser(rng.choice(FORMATS), (not uuid) and rng.random() < 0.3))
    return b.ops


def counter_history(rng):
    """SimpleMarker only, everything known exactly: a few marked entities, literal data with ids above
    the allocator's counter (and some existing ones), then Create + Mark: the new id must lie above
    every id loaded; then a second load of the same data (in place)."""
    b = Builder(rng, False)
    a = rng.randint(0, 5)
    for _ in range(a):
        b.add(CREATE, rng.choice([0, 1]))
    nmark = rng.randint(0, a)
    for h in range(nmark):
        b.add(MARK, h)                       # ids 0 .. nmark-1
    held = set(range(nmark))
    top = rng.choice([rng.randint(nmark, nmark + 6), rng.randint(HUGE_LO, HUGE_HI)])
    ids = [top] + [rng.choice([rng.randrange(max(nmark, 1)), rng.randint(0, nmark + 8), top - 1, top])
                   for _ in range(rng.randint(0, 4))]
    rng.shuffle(ids)
    recs = []
    for m in ids:
        slots = []
        for _ in range(NCOMP):
            r = rng.random()
            slots.append(None if r < 0.4 else ("p", rand_plain(rng)) if r < 0.7 else ("r", rng.choice(
                ids + [rng.randint(0, nmark + 8)])))
        recs.append((max(m, 0), slots))
    b.ops.append(deser_op(rng.choice(FORMATS), recs))
    mentioned = set(m for m, _ in recs) | set(s[1] for _, sl in recs for s in sl if s is not None and s[0] == "r")
    nh = a + len(mentioned - held)
    for _ in range(rng.randint(1, 3)):
        b.add(CREATE, rng.choice([0, 1]))
        b.add(MARK, nh)                      # exactly the entity just created
        nh += 1
    if rng.random() < 0.5:
        b.add(rng.choice([MAINTAIN, AMAINTAIN]))
    if rng.random() < 0.6:
        b.ops.append(deser_op(rng.choice(FORMATS), recs))
    if rng.random() < 0.5:
        b.add(MARK, rng.randrange(nh))       # already marked: existing id, false
    return b.ops


# ------------------------------------------------------------------ batch deletions

def batch_history(rng, uuid=False):
    """world.delete_entities over marked entities, half of the batches failing in the middle (a dead handle or a
    repeated one); then the freed indices are taken again, the newcomers marked, everything saved, loaded into the
    other world and loaded once more into the world it came from."""
    b = Builder(rng, uuid)
    n = rng.randint(3, 9)
    for _ in range(n):
        b.add(CREATE, 0)
    for h in range(n):
        if rng.random() < 0.85:
            if uuid or rng.random() < 0.3:
                b.add(MARKID, h, b.fresh_id())
            else:
                b.add(MARK, h)
        if rng.random() < 0.5:
            b.add(INSERT, h, rng.randrange(NCOMP), 1, rand_plain(rng))
    dead = set()
    if rng.random() < 0.5:
        h = rng.randrange(n)
        b.add(DELETE, h)
        dead.add(h)
    nh = n
    for _ in range(rng.randint(1, 3)):
        live = [h for h in range(nh) if h not in dead]
        if not live:
            break
        batch = rng.sample(live, rng.randint(1, min(4, len(live))))
        if rng.random() < 0.6:
            bad = rng.choice(sorted(dead)) if (dead and rng.random() < 0.5) else batch[0]
            pos = rng.randint(1, len(batch))
            batch = batch[:pos] + [bad] + batch[pos:]
            killed = batch[:pos]
        else:
            killed = batch
        b.add(DELMANY, *batch)
        dead.update(killed)
        if rng.random() < 0.3:
            b.add(MAINTAIN)
        for _ in range(rng.randint(1, len(killed) + 1)):
            b.add(CREATE, rng.choice([0, 0, 1]))
            if uuid or rng.random() < 0.3:
                b.add(MARKID, nh, b.fresh_id())
            else:
                b.add(MARK, nh)
            nh += 1
        if rng.random() < 0.4:
            b.add(AMAINTAIN)
    fa, fb = two_formats(rng)
    k = b.ser(fa)
    b.add(SWAP)
    b.load(fb, k)
    b.ser(fb)
    b.add(SWAP)
    b.load(fa, k)
    b.ser(fa)
    return b.ops


# ------------------------------------------------------------------ general mix

class _Side:
    def __init__(self):
        self.nh = 0
        self.marked, self.dead, self.referenced = [], set(), set()


def random_history(rng, n_ops, uuid=False):
    """general mix over all ops, both worlds"""
    b = Builder(rng, uuid)
    cur, oth = _Side(), _Side()
    small_index = 0
    while len(b.ops) < n_ops:
        r = rng.random()
        s = cur
        if s.nh == 0 and r > 0.15 and r < 0.80:
            r = 0.0
        if r < 0.16:
            if s.nh >= MAX_ENTS:
                continue
            b.add(CREATE, rng.choice([0, 0, 1]))
            s.nh += 1
        elif r < 0.38:
            h = rng.randrange(s.nh)
            k = rng.choice([0, 1, 2, 0, 1, 2, 0, 1, 2, 3, 7])
            if rng.random() < 0.35:
                t = rng.choice(s.marked) if (s.marked and rng.random() < 0.75) else rng.randrange(s.nh + 2)
                if rng.random() < 0.1:
                    t = h
                b.add(INSERT, h, k, 2, t)
                s.referenced.add(t)
            else:
                b.add(INSERT, h, k, 1, rand_plain(rng))
        elif r < 0.42:
            b.add(REMOVE, rng.randrange(s.nh), rng.choice([0, 1, 2, 2, 5]))
        elif r < 0.55:
            h = rng.randrange(s.nh)
            if uuid or rng.random() < 0.25:
                b.add(MARKID, h, b.fresh_id())
            else:
                b.add(MARK, h)
                small_index += 1
            s.marked.append(h)
        elif r < 0.61:
            cands = [h for h in range(s.nh) if h not in s.referenced]
            h = rng.choice(cands) if (cands and rng.random() < 0.8) else rng.randrange(s.nh)
            if rng.random() < 0.25:
                batch = [h] + [rng.randrange(s.nh) for _ in range(rng.randint(0, 3))]
                if s.dead and rng.random() < 0.5:
                    batch.insert(rng.randint(1, len(batch)), rng.choice(sorted(s.dead)))
                b.add(DELMANY, *batch)
            else:
                b.add(rng.choice([DELETE, DELETE, EDELETE]), h)
            s.dead.add(h)
            if h in s.marked:
                s.marked = [x for x in s.marked if x != h]
        elif r < 0.66:
            b.add(MAINTAIN)
        elif r < 0.70:
            b.add(AMAINTAIN)
        elif r < 0.80:
            if uuid or rng.random() < 0.45:
                b.ser(rng.choice(FORMATS))
            else:
                b.ser(rng.choice(FORMATS), True)
                s.marked = list(range(s.nh))
        elif r < 0.87:
            known = list(range(min(small_index + 2, SMALL_IDS)))
            b.ops.append(deser_op(rng.choice(FORMATS), literal_data(rng, b, known, small_index)))
            s.nh = min(s.nh + 2, MAX_ENTS)
        elif r < 0.94:
            if b.nsaved:
                b.load(rng.choice(FORMATS), rng.randrange(b.nsaved))
                s.nh = min(s.nh + 2, MAX_ENTS)
            else:
                b.add(LOAD, rng.choice(FORMATS), rng.randrange(3))     # nothing saved yet: skipped
        else:
            b.add(SWAP)
            cur, oth = oth, cur
    return b.ops


# ------------------------------------------------------------------ bounded-exhaustive enumeration

def enumerate_histories(depth, uuid=False, prefix=()):
    """every history of 1..depth ops over a reduced alphabet, after `prefix`.  MarkId ids are
    fresh by position; in the uuid variant Mark becomes MarkId and SerializeRec is left out."""
    d1 = enc_records([(0, [("r", 1), None, None])])
    d2 = enc_records([(1, [("p", 5), None, None]), (0, [None, None, ("r", 1)])])
    alpha = [(CREATE, [0]), (CREATE, [1]), (INSERT, [0, 0, 1, 7]), (INSERT, [0, 1, 2, 1]), (INSERT, [1, 0, 2, 0]),
             ("mark", [0]), ("mark", [1]), (DELETE, [0]), (EDELETE, [1]), (MAINTAIN, []), (AMAINTAIN, []),
             (SER, [0]), (SERREC, [1]), (DESER, [0] + d1), (DESER, [1] + d2), (LOAD, [2, 0]), (SWAP, [])]
    if uuid:
        alpha = [a for a in alpha if a[0] != SERREC]

    def fix(seq):
        out, c = [], 0
        for code, p in seq:
            if code == "mark":
                if uuid:
                    c += 1
                    out.append((MARKID, [p[0], FRESH_BASE * c]))
                else:
                    out.append((MARK, list(p)))
            else:
                out.append((code, list(p)))
        return out

    for n in range(1, depth + 1):
        for seq in itertools.product(alpha, repeat=n):
            yield fix(list(prefix) + list(seq))


ENUM_PREFIXES = (
    (),
    ((CREATE, [0]), (CREATE, [1]), (INSERT, [0, 0, 2, 1]), ("mark", [0])),
)
