"""Cases for the hierarchical-bit-set tie (harness/src/hibit.rs, Checkers/HibitChk.v).
case = [combo, na, a-ops.., nb, b-ops.., nt, tree..]; all random choices derive from the rng passed in."""

BOUND = [0, 1, 62, 63, 64, 65, 127, 128, 4094, 4095, 4096, 4097, 8191, 8192, 262142, 262143, 262144, 262145,
         524287, 524288, 16777215, 16777214, 16515072, 16515071]


def indices(rng):
    """a pool of indices: clustered inside one word / one layer-1 block / one layer-2 block / spread, boundaries"""
    style = rng.random()
    n = rng.choice([0, 1, 2, 3, 5, 8, 13, 24, 40])
    pool = []
    if style < 0.2:
        base = rng.choice(BOUND) // 64 * 64
        pool = [base + rng.randrange(64) for _ in range(n)]
    elif style < 0.4:
        base = rng.choice(BOUND) // 4096 * 4096
        pool = [base + rng.randrange(4096) for _ in range(n)]
    elif style < 0.55:
        base = rng.choice(BOUND) // 262144 * 262144
        pool = [base + rng.randrange(262144) for _ in range(n)]
    elif style < 0.75:
        pool = [rng.randrange(1 << 24) for _ in range(n)]
    else:
        pool = [rng.choice(BOUND) for _ in range(n)] + [rng.randrange(1 << rng.choice([6, 12, 18, 24])) for _ in range(n // 2)]
    return [min(max(i, 0), (1 << 24) - 1) for i in pool]


def ops(rng, pool):
    out = []
    for i in pool:
        out.append(i + 1)
    rng.shuffle(out)
    # removals: of members (emptying words and whole blocks), of non-members, re-additions
    k = rng.choice([0, 0, 1, 2, len(pool) // 2, len(pool)])
    for _ in range(k):
        if pool and rng.random() < 0.8:
            i = rng.choice(pool)
        else:
            i = rng.randrange(1 << 24)
        out.append(-(i + 1))
        if rng.random() < 0.2:
            out.append(i + 1)
    if rng.random() < 0.12:
        # a clear somewhere, and a few additions after it
        out.insert(rng.randrange(len(out) + 1), 0)
        out += [i + 1 for i in pool[: rng.randint(0, 3)]]
    return out


def tree(rng, depth=0):
    if depth >= 7 or rng.random() < (0.25 + 0.08 * depth):
        return [0]
    return [1] + tree(rng, depth + 1) + tree(rng, depth + 1)


def case(rng):
    combo = rng.choice([0, 0, 0, 1, 2, 3, 4, 5, 5, 6, 6])
    pa = indices(rng)
    a = ops(rng, pa)
    if combo in (0, 5):
        b = []
    else:
        # the second set shares indices, words and blocks with the first
        pb = [i for i in pa if rng.random() < 0.5] + [min(i ^ rng.choice([1, 64, 4096]), (1 << 24) - 1) for i in pa if rng.random() < 0.3]
        pb += indices(rng)[: rng.randint(0, 6)]
        b = ops(rng, pb)
    t = tree(rng)
    return [combo, len(a)] + a + [len(b)] + b + [len(t)] + t


def pretty(c):
    p = 1
    na = c[p]; a = c[p + 1:p + 1 + na]; p += 1 + na
    nb = c[p]; b = c[p + 1:p + 1 + nb]; p += 1 + nb
    nt = c[p]; t = c[p + 1:p + 1 + nt]
    f = lambda l: " ".join(("+%d" % (z - 1)) if z > 0 else ("-%d" % (-z - 1)) if z < 0 else "clear" for z in l)
    return "%s; a: %s; b: %s; splits: %s" % (["a", "a & b", "a | b", "a ^ b", "a & !b", "atomic a", "b | atomic a"][c[0]], f(a), f(b), "".join(map(str, t)))
