#!/usr/bin/env python3
"""specs-verif driver.

  ./sv setup                          build everything from files on disk
  ./sv check Cnn [--tier quick|thorough]
  ./sv replay <replay.json>

exit 0: property held on everything explored; exit 1 + line
"VIOLATION property=<id> replay=<path>" otherwise.  See DESIGN.md section 2.2."""
import fcntl
import hashlib
import json
import os
import random
import re
import shutil
import subprocess
import sys
import time

ROOT = os.path.dirname(os.path.abspath(__file__))
sys.path.insert(0, os.path.join(ROOT, "gen"))
sys.path.insert(0, os.path.join(ROOT, "lib"))

from svlib import common  # noqa: E402


def main():
    if len(sys.argv) < 2:
        print(__doc__)
        return 2
    cmd = sys.argv[1]
    if cmd == "setup":
        return common.setup()
    if cmd == "check":
        pid = sys.argv[2]
        tier = os.environ.get("VERIF_TIER", "quick")
        if "--tier" in sys.argv:
            tier = sys.argv[sys.argv.index("--tier") + 1]
        seed = int(os.environ.get("VERIF_SEED", "1"))
        from svlib import checks
        return checks.run_check(pid, tier, seed)
    if cmd == "replay":
        from svlib import checks
        return checks.replay(sys.argv[2])
    print(__doc__)
    return 2


if __name__ == "__main__":
    sys.exit(main())
