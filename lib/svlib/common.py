"""Build steps, locking, proof-obligation checks, evidence writing."""
import fcntl
import json
import os
import re
import shutil
import subprocess
import sys
import time

ROOT = os.path.dirname(os.path.dirname(os.path.dirname(os.path.abspath(__file__))))
CACHE = os.path.join(ROOT, ".cache")
COQ = os.path.join(ROOT, "coq")
REPO = os.environ.get("VERIF_REPO", "/repo")
GUARD = "specs_verif"
NCPU = os.cpu_count() or 4

ENV = dict(os.environ)
ENV.update({"CARGO_NET_OFFLINE": "true", "CARGO_TERM_COLOR": "never"})


def log(*a):
    print(*a, file=sys.stderr, flush=True)


class Lock:
    """one flock per build product"""

    def __init__(self, name):
        os.makedirs(CACHE, exist_ok=True)
        self.path = os.path.join(CACHE, name + ".lock")

    def __enter__(self):
        self.f = open(self.path, "w")
        fcntl.flock(self.f, fcntl.LOCK_EX)
        return self

    def __exit__(self, *a):
        fcntl.flock(self.f, fcntl.LOCK_UN)
        self.f.close()


def sh(cmd, cwd=None, timeout=3600, env=None):
    p = subprocess.run(cmd, cwd=cwd, env=env or ENV, stdout=subprocess.PIPE, stderr=subprocess.STDOUT,
                       timeout=timeout, text=True, shell=isinstance(cmd, str))
    return p.returncode, p.stdout


# ---------------------------------------------------------------- Coq

def coq_makefile():
    mk = os.path.join(COQ, "Makefile")
    proj = os.path.join(COQ, "_CoqProject")
    if not os.path.exists(mk) or os.path.getmtime(mk) < os.path.getmtime(proj):
        rc, out = sh(["coq_makefile", "-f", "_CoqProject", "-o", "Makefile"], cwd=COQ)
        if rc != 0:
            raise RuntimeError("coq_makefile failed:\n" + out)


def build_coq(targets=None, timeout=2400):
    """full .vo build (never -vos) of the given targets (default: all)."""
    with Lock("coq"):
        coq_makefile()
        cmd = ["make", "-j%d" % NCPU] + (targets or [])
        rc, out = sh(cmd, cwd=COQ, timeout=timeout)
        return rc == 0, out


FORBIDDEN = re.compile(r"\b(Admitted|admit|Axiom|Axioms|Parameter|Parameters|Conjecture|Hypothesis|Variable|"
                       r"Unset\s+Guard|bypass_check|type-in-type|impredicative-set|Admit\s+Obligations)\b")


def strip_comments(src):
    out, depth, i = [], 0, 0
    while i < len(src):
        if src.startswith("(*", i):
            depth += 1
            i += 2
        elif src.startswith("*)", i) and depth > 0:
            depth -= 1
            i += 2
        else:
            if depth == 0:
                out.append(src[i])
            i += 1
    return "".join(out)


def hygiene():
    """grep the whole development for forbidden vernacular outside comments.
    `Variable(s)`/`Hypothesis` are allowed inside a Section only."""
    bad = []
    for dp, _, fs in os.walk(os.path.join(COQ, "theories")):
        for f in fs:
            if not f.endswith(".v"):
                continue
            path = os.path.join(dp, f)
            src = strip_comments(open(path).read())
            depth = 0
            for n, line in enumerate(src.split("\n"), 1):
                s = line.strip()
                if re.match(r"Section\s", s):
                    depth += 1
                if re.match(r"End\s", s) and depth > 0:
                    depth -= 1
                for m in FORBIDDEN.finditer(line):
                    w = m.group(1)
                    if w in ("Variable", "Hypothesis") or w.startswith("Variable") or w.startswith("Hypothes"):
                        if depth > 0:
                            continue
                    bad.append("%s:%d: %s" % (os.path.relpath(path, ROOT), n, s))
    # also _CoqProject flags
    proj = open(os.path.join(COQ, "_CoqProject")).read()
    for flag in ("-type-in-type", "-impredicative-set", "-bypass"):
        if flag in proj:
            bad.append("_CoqProject: " + flag)
    return bad


ALLOWED_AXIOMS = set()   # the target is "Closed under the global context" everywhere


def print_assumptions(module, theorems):
    """compile a scratch file that prints the assumptions of each theorem.
    returns {theorem: [axiom names]} or raises on compile failure."""
    d = os.path.join(CACHE, "pa")
    os.makedirs(d, exist_ok=True)
    path = os.path.join(d, "PA_%s_%d.v" % (module.replace(".", "_"), os.getpid()))
    with open(path, "w") as f:
        f.write("From SV Require Import %s.\n" % module)
        for t in theorems:
            f.write('Goal True. idtac "@@BEGIN %s". Abort.\nPrint Assumptions %s.\n' % (t, t))
        f.write('Goal True. idtac "@@END". Abort.\n')
    rc, out = sh(["coqc", "-Q", os.path.join(COQ, "theories"), "SV", path], cwd=d, timeout=600)
    for ext in (".v", ".vo", ".vok", ".vos", ".glob"):
        try:
            os.remove(path[:-2] + ext)
        except OSError:
            pass
    try:
        os.remove(os.path.join(d, "." + os.path.basename(path)[:-2] + ".aux"))
    except OSError:
        pass
    if rc != 0:
        raise RuntimeError("Print Assumptions file failed:\n" + out)
    res, cur = {}, None
    for line in out.split("\n"):
        m = re.match(r"@@BEGIN (\S+)", line)
        if m:
            cur = m.group(1)
            res[cur] = []
            continue
        if line.startswith("@@END"):
            cur = None
            continue
        if cur is None:
            continue
        if "Closed under the global context" in line or line.strip() in ("", "Axioms:"):
            continue
        m = re.match(r"^(\S+)\s*:", line)
        if m and not line.startswith(" "):
            res[cur].append(m.group(1))
    return res


def coqchk(vo_modules, timeout=1800):
    rc, out = sh(["coqchk", "-silent", "-o", "-Q", os.path.join(COQ, "theories"), "SV"] + vo_modules,
                 cwd=COQ, timeout=timeout)
    return rc == 0, out


# ---------------------------------------------------------------- OCaml

def build_ocaml():
    with Lock("ocaml"):
        d = os.path.join(CACHE, "ocaml")
        os.makedirs(d, exist_ok=True)
        srcs = [os.path.join(ROOT, "ocaml", f) for f in ("model.mli", "model.ml", "driver.ml")]
        exe = os.path.join(d, "driver")
        if os.path.exists(exe) and all(os.path.getmtime(s) <= os.path.getmtime(exe) for s in srcs):
            return exe
        for s in srcs:
            shutil.copy(s, d)
        rc, out = sh(["ocamlfind", "ocamlopt", "-O2", "-w", "-a", "model.mli", "model.ml", "driver.ml", "-o", "driver"],
                     cwd=d, timeout=900)
        if rc != 0:
            raise RuntimeError("ocaml build failed:\n" + out)
        return exe


# ---------------------------------------------------------------- Rust harness

def harness_dir():
    """the harness crate; for VERIF_REPO != /repo a private copy with the path substituted"""
    src = os.path.join(ROOT, "harness")
    if REPO == "/repo":
        return src, os.path.join(CACHE, "cargo")
    tag = re.sub(r"[^A-Za-z0-9]", "_", REPO)
    d = os.path.join(CACHE, "harness" + tag)
    if os.path.exists(d):
        shutil.rmtree(d)
    shutil.copytree(src, d, ignore=shutil.ignore_patterns("target"))
    toml = open(os.path.join(d, "Cargo.toml")).read().replace('path = "/repo"', 'path = "%s"' % REPO)
    open(os.path.join(d, "Cargo.toml"), "w").write(toml)
    return d, os.path.join(CACHE, "cargo" + tag)


class HarnessBuildError(RuntimeError):
    """the harness (which drives the implementation through its public API) does not build against the tree"""


def build_harness(release=False, timeout=2400):
    with Lock("cargo"):
        d, target = harness_dir()
        lock = os.path.join(d, "Cargo.lock")
        if not os.path.exists(lock):
            shutil.copy(os.path.join(REPO, "Cargo.lock"), lock)
        env = dict(ENV)
        env["CARGO_TARGET_DIR"] = target
        env["RUSTFLAGS"] = "--cfg %s --check-cfg=cfg(%s) -Awarnings" % (GUARD, GUARD)
        cmd = ["cargo", "build", "--offline", "--quiet"] + (["--release"] if release else [])
        rc, out = sh(cmd, cwd=d, timeout=timeout, env=env)
        if rc != 0:
            raise HarnessBuildError("cargo build failed:\n" + out[-6000:])
        return os.path.join(target, "release" if release else "debug", "specs-harness")


def unlimit_stack():
    """the extracted model recurses on lists (histories with 10^5 handles): no stack limit"""
    import resource
    try:
        resource.setrlimit(resource.RLIMIT_STACK, (resource.RLIM_INFINITY, resource.RLIM_INFINITY))
    except (ValueError, OSError):
        pass


# ---------------------------------------------------------------- setup

def setup():
    t0 = time.time()
    ok, out = build_coq()
    if not ok:
        log(out[-6000:])
        log("setup: Coq build failed")
        return 1
    build_ocaml()
    build_harness(False)
    log("setup done in %.0fs" % (time.time() - t0))
    return 0


# ---------------------------------------------------------------- evidence

def write_evidence(pid, ev):
    os.makedirs(os.path.join(ROOT, "evidence"), exist_ok=True)
    path = os.path.join(ROOT, "evidence", pid + ".json")
    tmp = path + ".tmp%d" % os.getpid()
    with open(tmp, "w") as f:
        json.dump(ev, f, indent=1, sort_keys=True)
    os.replace(tmp, path)
    return path


def write_replay(pid, obj):
    d = os.path.join(ROOT, "replays")
    os.makedirs(d, exist_ok=True)
    path = os.path.join(d, "%s_%d_%d.json" % (pid, int(time.time()), os.getpid()))
    with open(path, "w") as f:
        json.dump(obj, f, indent=1)
    return os.path.relpath(path, ROOT)


def run_dir():
    d = os.path.join(CACHE, "run", str(os.getpid()))
    os.makedirs(d, exist_ok=True)
    return d


def cleanup_run_dir():
    shutil.rmtree(os.path.join(CACHE, "run", str(os.getpid())), ignore_errors=True)
