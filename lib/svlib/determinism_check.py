"""C20: single-threaded behaviour is deterministic and replayable.

The models are functions of the history; the correspondence (every other check) says the implementation
computes them.  This check re-evaluates that relation *between runs*: every history is executed
  A  in one process,
  B  in a fresh process (other hash seeds, other address layout),
  C  in a third process, after other histories and twice in a row (other worlds earlier in the same process),
  D  (the panic-free ones) from a destructor while a panic raised by the caller unwinds,
  E  in a process with a logger installed that listens at every level and with lazy closures taking 9 ms each,
and all transcripts - results, handles, join rows, event streams, destroyed values, the harness ledger -
must be identical and equal to the extracted model's.  The save/load domain is run twice the same way
(serialised data compared after parsing)."""
import collections
import hashlib
import os
import random
import subprocess
import time

from . import checks, common
from .common import log

import world_gen as wg
import store_gen as sg
import join_gen as jg


def gen_histories(tier, seed):
    rng = random.Random(seed * 1000003 + 2020)
    q = tier == "quick"
    hists, stats = [], collections.Counter()

    def add(name, n, f):
        for _ in range(n if q else n * 12):
            hists.append(f())
            stats[name] += 1
    add("random entity histories", 150, lambda: wg.with_probes(wg.random_history(rng, rng.randint(8, 60)), every=2))
    add("hash-map storages", 120, lambda: sg.map_history(rng, rng.randint(10, 70), [rng.choice([3, 9, 14])]) + [(sg.DROPW, [])])
    add("mixed storages", 100, lambda: sg.map_history(rng, rng.randint(10, 80)) + [(sg.DROPW, [])])
    add("event histories", 80, lambda: sg.events_history(rng, rng.randint(15, 80)))
    add("lazy histories", 80, lambda: sg.lazy_history(rng, rng.randint(8, 45)))
    add("purge histories", 60, lambda: sg.purge_history(rng))
    add("lazy histories with several hundred pending actions", 4, lambda: sg.lazy_flood_history(rng))
    add("lazy cascades 5 to 12 levels deep", 10, lambda: sg.lazy_chain_history(rng))
    add("closures that create entities and queue insertions for them", 40, lambda: sg.lazy_purge_history(rng))

    def wide_wipe():
        """a few thousand entities, an irregular half of them deleted, delete_all, then creations: the handles
        handed out after the wipe follow the order in which delete_all killed (and recycled) the live entities"""
        n = rng.choice([1500, 2500, 4000])
        h = [(wg.CI, [n])]
        victims = [k for k in range(n) if rng.random() < 0.45]
        for i in range(0, len(victims), 97):
            h.append((wg.DM, victims[i:i + 97]))
        h.append((wg.M, []))
        h.append((wg.DA, []))
        h.append((wg.CI, [rng.randint(40, 200)]))
        h.append((wg.JE, []))
        h.append((wg.M, []))
        h.append((wg.ECI, [rng.randint(10, 60)]))
        h.append((wg.JE, []))
        return h
    add("delete_all over a few thousand irregularly populated indices", 4, wide_wipe)
    for focus in ("join", "restrict", "changeset"):
        add("%s-focused join histories" % focus, 40, lambda: jg.join_history(rng, rng.randint(6, 30), focus))
    return hists, stats


def _has_panic(line):
    return any(part.strip() == "9" for part in line.split("|"))


def _strip_ledger(line):
    head, sep, last = line.rpartition("|")
    return head.rstrip() if last.strip().startswith("98") else line


def run_once(exe, hists, tag, order=None, twice=False, domain="world", env=None):
    """transcript lines (by history position) of one fresh harness process"""
    d = common.run_dir()
    hf = os.path.join(d, "det_%s.txt" % tag)
    idx = list(range(len(hists))) if order is None else list(order)
    with open(hf, "w") as f:
        for k in idx:
            f.write(wg.encode(hists[k]) + "\n")
            if twice:
                f.write(wg.encode(hists[k]) + "\n")
    p = subprocess.run([exe, domain, hf], stdout=subprocess.PIPE, text=True, timeout=7200,
                       env=None if env is None else dict(os.environ, **env))
    lines = p.stdout.rstrip("\n").split("\n") if p.stdout else []
    step = 2 if twice else 1
    if p.returncode != 0 or len(lines) != step * len(idx):
        return None
    out = [None] * len(hists)
    for j, k in enumerate(idx):
        out[k] = tuple(lines[step * j: step * j + step])
    return out


def check_determinism(pid, tier, seed):
    t0 = time.time()
    p = checks.PROPS[pid]
    proof = checks.proof_obligations(pid, tier)
    hists, gstats = gen_histories(tier, seed)
    exe = common.build_harness(False)
    rng = random.Random(seed + 99)
    a = run_once(exe, hists, "a")
    b = run_once(exe, hists, "b")
    order = list(range(len(hists)))
    rng.shuffle(order)
    c = run_once(exe, hists, "c", order=order, twice=True)
    violations = []
    crashed = [x is None for x in (a, b, c)]
    # run D: histories in which nothing panicked, driven from a destructor while a panic raised by the caller unwinds
    # (ambient thread state must not matter either); a panic in there would abort, hence only panic-free histories
    calm = [k for k in range(len(hists)) if a is not None and not _has_panic(a[k][0])]
    dres = run_once(exe, [hists[k] for k in calm], "d", domain="world-unwinding") if calm else []
    # run E: other surroundings - a logger installed that listens at every level, lazy closures that take 9 ms each
    eres = run_once(exe, hists, "e", env={"SV_AMBIENT": "1"})
    if any(crashed):
        violations.append(("the harness process crashed or lost output in run %s" % "ABC"[crashed.index(True)], None, None))
    elif eres is None:
        violations.append(("the harness process crashed or lost output in run E (a logger installed, slow lazy "
                           "closures)", None, None))
    elif dres is None:
        violations.append(("the harness process crashed or lost output in run D (histories driven while a caller's "
                           "panic unwinds)", None, None))
    else:
        for j, k in enumerate(calm):
            if _strip_ledger(dres[j][0]) != _strip_ledger(a[k][0]):
                violations.append(("the same history gave different transcripts in run A and when driven from a "
                                   "destructor while a panic raised by the caller unwinds", hists[k],
                                   dict(run_a=a[k][0][:3000], other=dres[j][0][:3000])))
                break
    if not any(crashed) and not violations:
        for k, h in enumerate(hists):
            outs = [("run A", a[k][0]), ("run B (fresh process)", b[k][0]),
                    ("run C (after other worlds, first time)", c[k][0]), ("run C (second time in a row)", c[k][1]),
                    ("run E (a logger listening at every level, lazy closures taking 9 ms each)", eres[k][0])]
            for name, o in outs[1:]:
                if o != outs[0][1]:
                    violations.append(("the same history gave different transcripts in run A and in %s" % name, h,
                                       dict(run_a=outs[0][1][:3000], other=o[:3000])))
                    break
    # the tie to the model (faithful equality on every history)
    results = checks.run_world(hists, fixed=True)
    diverged = [r for r in results if not r["eq"]]
    # save/load: serialised data of two processes
    sl_note = None
    try:
        from . import saveload_check as slc
        import saveload_gen as slg
        simple, uu, _ = slc.gen_saveload("C14", "quick", seed)
        simple = simple[:300 if tier == "quick" else 3000]
        # recursive serialisation with several not-yet-marked entities reached in the same pass (the order in which
        # they are marked and written must not depend on hashing)
        for _ in range(60 if tier == "quick" else 600):
            n = rng.randint(3, 10)
            h = [(slg.CREATE, [0]) for _ in range(3 * n)]
            for i in range(n):
                h.append((slg.INSERT, [i, 0, 2, n + i]))              # root i -> leaf n+i
                if rng.random() < 0.5:
                    h.append((slg.INSERT, [n + i, 1, 2, 2 * n + i]))  # leaf -> second-level leaf
                h.append((slg.INSERT, [i, 2, 1, rng.randint(-50, 50)]))
            for i in rng.sample(range(n), n):
                h.append((slg.MARK, [i]))
            h.append((slg.SERREC, [rng.choice(slg.FORMATS)]))
            h.append((slg.SERREC, [rng.choice(slg.FORMATS)]))
            simple.append(h)
        r1 = slc.run_saveload(simple, False)
        # second process: other order, every history twice in a row (other worlds earlier in the same process)
        order = list(range(len(simple)))
        rng.shuffle(order)
        doubled = []
        for k in order:
            doubled += [simple[k], simple[k]]
        r2d = slc.run_saveload(doubled, False)
        nd = 0
        for pos, k in enumerate(order):
            x = r1[k]
            for y in (r2d[2 * pos], r2d[2 * pos + 1]):
                if x["impl"] != y["impl"]:
                    nd += 1
                    if not violations:
                        violations.append(("save/load: the same history gave different outputs (markers / serialised data) in "
                                           "two runs (another process, after other worlds)", None,
                                           dict(history=slg.pretty(x["hist"]), run_a=str(x["impl"])[:3000],
                                                other=str(y["impl"])[:3000])))
                    break
        sl_note = "%d save/load histories run in two processes (second: shuffled, each twice in a row), %d differing" % (len(r1), nd)
    except Exception as e:      # the save/load domain is optional for this check
        sl_note = "save/load comparison unavailable: %r" % (e,)

    rc = 0
    replay = None
    if violations:
        what, h, outs = violations[0]
        obj = dict(property=pid, domain="determinism", what=what, outputs=outs)
        if h is not None:
            obj.update(history=wg.pretty(h), encoded=wg.encode(h),
                       replay_cmd="run harness `world` on the encoded history in two processes and compare")
        replay = common.write_replay(pid, obj)
        print("VIOLATION property=%s replay=%s" % (pid, replay))
        rc = 1
    elif proof["failures"]:
        replay = common.write_replay(pid, dict(property=pid, domain="determinism", what="proof obligation no longer checks",
                                               failing=proof["failures"]))
        print("VIOLATION property=%s replay=%s no-failing-input-found" % (pid, replay))
        rc = 1
    elif diverged:
        r = min(diverged, key=lambda x: len(x["hist"]))
        replay = common.write_replay(pid, dict(property=pid, domain="world",
                                               what="correspondence corr:world/faithful no longer holds (all runs agree with "
                                                    "each other, but not with the model)", **checks.summarize(r)))
        print("VIOLATION property=%s replay=%s no-failing-input-found" % (pid, replay))
        rc = 1
    ophist = collections.Counter()
    for h in hists:
        for cde, _ in h:
            ophist[wg.NAMES.get(cde, str(cde))] += 1
    distinct = set(hashlib.sha1(wg.encode(h).encode()).hexdigest() for h in hists)
    hashy = sum(1 for h in hists if any(cde == sg.REG and pp and pp[0] in (3, 9, 14) for cde, pp in h))
    ev = dict(
        property_id=pid, tier=tier, seed=seed, level="proof",
        coverage=dict(
            obligations=proof["obligations"] + 2,
            discharged=proof["discharged"] + (0 if diverged else 1) + (0 if violations else 1),
            checker_cmd="make -C coq theories/Props/C20.vo + Print Assumptions + ./sv check C20",
            trusted_base=checks.TRUSTED_COMMON + ["process-level variation comes from the OS (ASLR) and from std's per-process and "
                                                  "per-map random hash keys; nothing is injected"],
            theorems=proof["theorems"], axioms=proof["axioms"], proof_failures=proof["failures"],
            correspondence=dict(required="corr:world/faithful", faithful_equal=len(results) - len(diverged),
                                faithful_diverged=len(diverged)),
            evaluations=5 * len(hists) + len(calm), distinct=len(distinct), distinct_nontrivial=hashy,
            driven_while_a_callers_panic_unwinds=len(calm),
            rule="every history executed in three processes (A; B fresh; C shuffled order, each history twice in a row), "
                 "the panic-free ones once more from a destructor while a panic raised by the caller unwinds (D), all "
                 "of them once more in a process with a logger installed that listens at every level and with lazy "
                 "closures taking 9 ms each (E), and on the extracted model; all transcripts (results, handles, join rows, event streams, destroyed values, "
                 "ledger) must be identical; non-trivial = " + p["nontrivial"],
            generator=dict(gstats), op_histogram=dict(ophist), saveload=sl_note,
            samples=[dict(history=wg.pretty(h)[:1200], transcript=(a[k][0][:1200] if a else None))
                     for k, h in list(enumerate(hists))[:: max(1, len(hists) // 3)][:3]],
            exhaustive=False,
        ),
        assumptions=["single-threaded histories only (parallel joins are C07, concurrent entity operations C10)"],
        wall_s=round(time.time() - t0, 2), violations=len(violations),
    )
    common.write_evidence(pid, ev)
    common.cleanup_run_dir()
    return rc


def replay_determinism(obj):
    """re-runs the recorded history in two fresh processes and prints both transcripts"""
    if "encoded" not in obj:
        import json
        print(json.dumps(obj, indent=1)[:6000])
        return 1
    h = wg.decode(obj["encoded"])
    exe = common.build_harness(False)
    x = run_once(exe, [h], "ra")
    y = run_once(exe, [h, h], "rb", order=[1, 0], twice=True)
    print("history:", wg.pretty(h))
    print("run A :", x[0][0] if x else "crashed")
    print("run B :", (y[0][0], y[0][1]) if y else "crashed")
    same = bool(x and y and x[0][0] == y[0][0] == y[0][1])
    print("identical" if same else "DIFFERENT")
    common.cleanup_run_dir()
    return 0 if same else 1
