"""Property C11 (`dispatch` domain): proof obligations + correspondence with shred's real
DispatcherBuilder / dispatch and the real SystemData impls of the specs storage handles."""
import collections
import hashlib
import json
import os
import random
import subprocess
import time

from . import common
from .common import ROOT, log

import dispatch_gen as dg

VKEYS = ["tree_eq", "decl_eq", "probe_eq", "panic_eq", "nlogs", "nbad", "bad_code", "counter_violations",
         "panics", "probes_inconsistent"]

BAD_CODES = {1: "the log names an unknown system", 2: "a system ran twice in one dispatch",
             3: "a system started before one of its dependencies had ended",
             4: "a system started while a system that writes what it reads or writes (or reads what it writes) "
                "was running",
             5: "a system ended without running", 6: "a system did not run, or did not end, in a dispatch",
             7: "the borrow flags refuse a borrow along the observed schedule"}


def parse_tr(line):
    line = line.strip()
    if not line:
        return []
    return [[int(x) for x in part.split()] for part in line.split("|")]


def run_dispatch(graphs, release=False, timeout=3600):
    """execute graphs on the implementation and on the extracted model"""
    exe = common.build_harness(release)
    drv = common.build_ocaml()
    d = common.run_dir()
    hf = os.path.join(d, "graphs.txt")
    tf = os.path.join(d, "impl.txt")
    with open(hf, "w") as f:
        for g in graphs:
            f.write(dg.encode(g) + "\n")
    impl_lines = run_harness(exe, hf, graphs, timeout)
    with open(tf, "w") as f:
        f.write("\n".join(impl_lines) + "\n")
    p = subprocess.run([drv, "dispatch", hf, tf], stdout=subprocess.PIPE, text=True, timeout=timeout)
    if p.returncode != 0:
        raise RuntimeError("model driver failed")
    lines = p.stdout.split("\n")
    res = []
    for k, g in enumerate(graphs):
        v = lines[2 * k + 1].split()
        assert v[0] == "V", v
        r = dict(graph=g, impl=parse_tr(impl_lines[k]), model=parse_tr(lines[2 * k]))
        r.update(zip(VKEYS, [int(x) for x in v[1:]]))
        res.append(r)
    return res


def run_harness(exe, hf, graphs, timeout):
    # a handful of graphs (shrinking, replay): a case that does not return is given up after 45 s
    env = dict(os.environ, SV_WATCHDOG_SECS="45") if len(graphs) <= 3 else None
    p = subprocess.run([exe, "dispatch", hf], stdout=subprocess.PIPE, text=True, timeout=timeout, env=env)
    if p.returncode == 0:
        lines = p.stdout.rstrip("\n").split("\n") if graphs else []
        if len(lines) == len(graphs):
            return lines
    log("harness crashed (rc=%s); re-running one graph at a time" % p.returncode)
    out = []
    one = os.path.join(common.run_dir(), "one.txt")
    failures = 0
    env = dict(os.environ, SV_WATCHDOG_SECS="45")
    for g in graphs:
        if failures >= 4:
            out.append("9")       # enough to report and to shrink from
            continue
        with open(one, "w") as f:
            f.write(dg.encode(g) + "\n")
        try:
            q = subprocess.run([exe, "dispatch", one], stdout=subprocess.PIPE, text=True, timeout=600, env=env)
            ok = q.returncode == 0 and q.stdout.strip()
        except subprocess.TimeoutExpired:
            ok = False
        if not ok:
            failures += 1
        out.append(q.stdout.strip().split("\n")[0] if ok else "9")
    return out


def violation(r):
    """a description if result r shows C11 violated by the implementation itself, else None"""
    if r["probes_inconsistent"]:
        return ("a storage handle borrows from the world something else than it declares "
                "(reads()/writes() against the borrow flags seen while the handle is alive): %d handle(s)"
                % r["probes_inconsistent"])
    if r["panics"]:
        return "real dispatch panicked (a borrow was refused: a resource was already borrowed by a system running " \
               "at the same time), where the model proves no borrow is ever refused"
    if r["nbad"]:
        return "real dispatch: " + BAD_CODES.get(r["bad_code"], "log rejected (code %d)" % r["bad_code"])
    if r["counter_violations"]:
        return "real dispatch: a writer of a resource ran while another system was reading or writing it " \
               "(reader/writer counters)"
    if not r["panic_eq"]:
        return "the builder panicked where the model does not (or the reverse), or the dispatch did not return"
    return None


def diverged(r):
    return not (r["tree_eq"] and r["decl_eq"] and r["probe_eq"] and r["panic_eq"])


def divergence_kind(r):
    ks = []
    if not r["tree_eq"]:
        ks.append("stage/group tree")
    if not r["decl_eq"]:
        ks.append("accessor reads()/writes()")
    if not r["probe_eq"]:
        ks.append("handle declaration or borrow flags")
    if not r["panic_eq"]:
        ks.append("panic")
    return ", ".join(ks)


def nontrivial(r):
    """a graph whose tree has a stage with two groups and a group or a later stage forced by a conflict
    or a dependency, and that was really dispatched"""
    tree = [o for o in r["impl"] if o and o[0] == 1]
    if not tree or r["nlogs"] == 0:
        return False
    t = tree[0]
    nst = t[1]
    i, par, seq = 2, False, False
    for _ in range(max(nst, 0)):
        ng = t[i]
        i += 1
        par = par or ng >= 2
        for _ in range(ng):
            ns = t[i]
            seq = seq or ns >= 2
            i += 1 + ns
    return par and (seq or nst >= 2)


def gen_graphs(tier, seed, scale=1):
    rng = random.Random(seed * 1000003 + sum(map(ord, "C11")))
    graphs, stats = [], collections.Counter()
    cdir = os.path.join(ROOT, "gen", "corpus", "C11")
    if os.path.isdir(cdir):
        for f in sorted(os.listdir(cdir)):
            for line in open(os.path.join(cdir, f)):
                if line.strip():
                    graphs.append(dg.decode(line))
                    stats["corpus"] += 1
    graphs.append(dg.probe_all())
    stats["probe every handle"] += 1
    # bounded-exhaustive staging comparison (tree only, no dispatch)
    for g in dg.enumerate_small(3):
        graphs.append(g)
        stats["enumerated (3 systems, tree only)"] += 1
    n_rand = (700 if tier == "quick" else 1500) * scale
    for _ in range(n_rand):
        g = dg.random_graph(rng, rng.randint(2, 40))
        graphs.append(dg.with_runs(rng, g, tier))
        stats["random + dispatch"] += 1
    for _ in range((1500 if tier == "quick" else 6000) * scale):
        graphs.append(dg.random_graph(rng, rng.randint(2, 40)))
        stats["random (tree only)"] += 1
    for _ in range((10 if tier == "quick" else 60) * scale):
        graphs.append(dg.forward_dep_graph(rng))
        stats["unknown dependency (builder panics)"] += 1
    if tier != "quick":
        for _ in range(20 * scale):
            g = dg.random_graph(rng, rng.randint(10, 40))
            graphs.append(g + [("run", p, 4) for p in range(1, 33)])
            stats["every pool size 1..32"] += 1
    else:
        for _ in range(2 * scale):
            g = dg.random_graph(rng, rng.randint(10, 30))
            graphs.append(g + [("run", p, 1) for p in range(1, 33)])
            stats["every pool size 1..32"] += 1
    return graphs, stats


def shrink(g):
    """delta debugging on the systems (then the other items), keeping `violation`"""
    def fails(x):
        if not x:
            return False
        return violation(run_dispatch([x], timeout=600)[0]) is not None

    cur = list(g)
    budget = 60
    deadline = time.time() + 600          # an implementation that hangs costs a watchdog period per attempt

    def fails(x, _f=fails):
        return time.time() < deadline and _f(x)
    # probes: one at a time
    probes = [it for it in cur if it[0] == "probe"]
    if probes:
        for it in probes:
            budget -= 1
            if fails([it]):
                return [it]
    changed = True
    while changed and budget > 0:
        changed = False
        k = dg.n_systems(cur) - 1
        while k >= 0 and budget > 0:
            cand = dg.remove_system(cur, k)
            budget -= 1
            if dg.n_systems(cand) >= 1 and fails(cand):
                cur, changed = cand, True
            k -= 1
    for i in range(len(cur) - 1, -1, -1):
        if cur[i][0] in ("barrier", "probe") and budget > 0:
            cand = cur[:i] + cur[i + 1:]
            budget -= 1
            if fails(cand):
                cur = cand
    return cur


def summarize(r):
    return dict(graph=dg.pretty(r["graph"]), encoded=dg.encode(r["graph"]),
                impl=" | ".join(" ".join(map(str, o)) for o in r["impl"] if o and o[0] != 4),
                impl_logs=[" ".join(map(str, o)) for o in r["impl"] if o and o[0] == 4][:4],
                model=" | ".join(" ".join(map(str, o)) for o in r["model"]),
                verdict={k: r[k] for k in VKEYS})


def check_dispatch(pid, tier, seed):
    from . import checks
    t0 = time.time()
    p = checks.PROPS[pid]
    proof = checks.proof_obligations(pid, tier)
    graphs, gstats = gen_graphs(tier, seed)
    results = run_dispatch(graphs)
    if tier == "thorough":
        rel = run_dispatch([g for g in graphs if any(it[0] == "run" for it in g)][:400], release=True)
        results = results + rel
    violations, div = [], []
    distinct, nontriv = set(), set()
    hist = collections.Counter()
    dispatches = 0
    overlapped, max_conc = 0, 0
    for r in results:
        for o in r["impl"]:
            if o and o[0] == 4:
                run = top = 0
                for e in o[4:]:
                    run += 1 if e > 0 else -1
                    top = max(top, run)
                overlapped += 1 if top >= 2 else 0
                max_conc = max(max_conc, top)
        key = hashlib.sha1(dg.encode(r["graph"]).encode()).hexdigest()
        distinct.add(key)
        dispatches += r["nlogs"]
        for it in r["graph"]:
            hist[it[0]] += 1
            if it[0] == "sys":
                for h in it[2]:
                    hist["handle:" + dg.HNAMES.get(h, str(h)).split("<")[0]] += 1
                if it[3]:
                    hist["sys with dependencies"] += 1
            if it[0] == "run":
                hist["pool:%d" % it[1]] += 1
        if nontrivial(r):
            nontriv.add(key)
        v = violation(r)
        if v:
            violations.append((v, r))
        elif diverged(r):
            div.append(r)
    for need in ("sys", "barrier", "run", "probe", "sys with dependencies", "handle:WriteStorage", "handle:ReadStorage",
                 "handle:Entities", "handle:Read"):
        if hist[need] == 0:
            proof["failures"].append("generator bucket empty: " + need)
    if dispatches == 0:
        proof["failures"].append("no real dispatch was executed")
    elif overlapped == 0 and not violations:
        proof["failures"].append("no dispatch showed two systems running at once (the executor no longer overlaps groups)")

    search_note = None
    if (proof["failures"] or div) and not violations:
        # failing-input search: the diverging graphs dispatched on many pools, then ten times the budget
        rng = random.Random(seed + 7919)
        extra = [dg.with_runs(rng, [it for it in r["graph"] if it[0] != "run"], "thorough", npools=6, rounds=20)
                 for r in div[:40] if dg.n_systems(r["graph"]) > 0]
        more, _ = gen_graphs("quick", seed + 7919, scale=10 if not div else 3)
        extra += [g for g in more if any(it[0] == "run" for it in g)]
        for r in run_dispatch(extra):
            v = violation(r)
            if v:
                violations.append((v, r))
                break
        search_note = "failing-input search over %d further graphs: %s" % (len(extra), "found" if violations else "none found")

    rc, replay = 0, None
    if violations:
        desc, r = violations[0]
        small = shrink(r["graph"])
        rs = run_dispatch([small])[0]
        if violation(rs) is None:
            rs = r
        desc = violation(rs) or desc
        further, seen = [], {desc}
        for d2, r2 in violations:
            if d2 not in seen and len(further) < 3:
                seen.add(d2)
                further.append(dict(what=d2, graph=dg.pretty(r2["graph"]), encoded=dg.encode(r2["graph"]),
                                    verdict={k: r2[k] for k in VKEYS}))
        replay = common.write_replay(pid, dict(property=pid, domain="dispatch", what=desc, **summarize(rs),
                                               further_violations_not_shrunk=further,
                                               replay_cmd="./sv replay <this file>"))
        print("VIOLATION property=%s replay=%s" % (pid, replay))
        rc = 1
    elif proof["failures"]:
        replay = common.write_replay(pid, dict(property=pid, domain="dispatch", what="proof obligation no longer checks",
                                               failing=proof["failures"], search=search_note))
        print("VIOLATION property=%s replay=%s no-failing-input-found" % (pid, replay))
        rc = 1
    elif div:
        r = div[0]
        replay = common.write_replay(pid, dict(property=pid, domain="dispatch",
                                               what="correspondence corr:dispatch/faithful no longer holds (%s differs "
                                                    "from the model)" % divergence_kind(r),
                                               search=search_note, **summarize(r)))
        print("VIOLATION property=%s replay=%s no-failing-input-found" % (pid, replay))
        rc = 1

    with_runs = [r for r in results if r["nlogs"]]
    samples = [summarize(r) for r in results[:1] + with_runs[:1] + with_runs[len(with_runs) // 2:len(with_runs) // 2 + 1]]
    corr_ok = not div and not any(diverged(r) for _, r in violations)
    direct_ok = not violations
    ev = dict(
        property_id=pid, tier=tier, seed=seed, level="proof",
        coverage=dict(
            obligations=proof["obligations"] + 2,
            discharged=proof["discharged"] + (1 if corr_ok else 0) + (1 if direct_ok else 0),
            checker_cmd="make -C coq theories/%s.vo (coqc 8.16.1, full .vo) + Print Assumptions + ./sv check %s" % (
                p["module"].replace(".", "/"), pid),
            trusted_base=checks.TRUSTED_COMMON + [
                "modelled not verified: shred 0.16.1 StagesBuilder/DispatcherBuilder (Dispatch/Stage.v, compared by exact "
                "stage/group tree with the Debug output of the real builder), shred World borrow flags (AtomicRefCell) as "
                "reader count / writer flag, rayon as an arbitrary interleaving of the groups of a stage; "
                "thread-local systems and batch dispatchers are not modelled",
                "the harness systems use a dynamic accessor (shred Accessor/DynamicSystemData) that concatenates the real "
                "SystemData::reads()/writes() of ReadStorage/WriteStorage/Entities/Read<LazyUpdate> and calls their real "
                "fetch in order, as shred's tuple impls do",
            ],
            theorems=proof["theorems"], axioms=proof["axioms"], proof_failures=proof["failures"],
            correspondence=dict(required="corr:dispatch/faithful",
                                tree_equal=sum(1 for r in results if r["tree_eq"]),
                                tree_differs=sum(1 for r in results if not r["tree_eq"]),
                                decl_differs=sum(1 for r in results if not r["decl_eq"]),
                                probe_differs=sum(1 for r in results if not r["probe_eq"]),
                                logs_checked=dispatches, logs_with_real_overlap=overlapped,
                                max_systems_running_at_once=max_conc,
                                logs_rejected=sum(r["nbad"] for r in results),
                                counter_violations=sum(r["counter_violations"] for r in results),
                                panics=sum(r["panics"] for r in results)),
            faithful_model_diverged=bool(div),
            evaluations=len(results), distinct_nontrivial=len(nontriv), distinct=len(distinct),
            dispatches=dispatches,
            rule="graphs: corpus + a probe of every handle + every graph of 3 systems over a reduced handle alphabet "
                 "(tree comparison only) + random graphs of 2..40 systems over 6 component types with dependencies, "
                 "barriers and running times (tree comparison; a part really dispatched on rayon pools of 1..32 threads "
                 "for several rounds, every enter/exit log checked by the extracted checker) + graphs with an unknown "
                 "dependency; non-trivial = the real builder's tree has a stage with at least two groups and either a "
                 "group of at least two systems or a second stage, and the graph was really dispatched",
            generator=dict(gstats), op_histogram=dict(hist),
            samples=samples, exhaustive=False, search=search_note,
        ),
        assumptions=["every system names each component type at most once (a tuple with ReadStorage<T> and WriteStorage<T> "
                     "panics on its own fetch: hypothesis self_ok of the theorems)",
                     "system running times are RunningTime values 1..5 (no u8 overflow in the balance heuristic)"],
        wall_s=round(time.time() - t0, 2), violations=len(violations),
    )
    common.write_evidence(pid, ev)
    common.cleanup_run_dir()
    return rc


def replay(obj, path):
    pid = obj["property"]
    if "encoded" not in obj:
        print(json.dumps(obj, indent=1))
        return 1
    g = dg.decode(obj["encoded"])
    r = run_dispatch([g])[0]
    v = violation(r)
    print(json.dumps(summarize(r), indent=1))
    common.cleanup_run_dir()
    if v:
        print("VIOLATION property=%s replay=%s" % (pid, path))
        return 1
    if diverged(r):
        print("VIOLATION property=%s replay=%s no-failing-input-found" % (pid, path))
        return 1
    print("no violation on this graph")
    return 0
