"""Per-property checks: proof obligations + correspondence + decision + evidence."""
import collections
import hashlib
import json
import os
import random
import subprocess
import sys
import time

from . import common
from .common import ROOT, log

import world_gen as wg
import store_gen as sg
import join_gen as jg

# ------------------------------------------------------------------ property table

TRUSTED_COMMON = [
    "Coq 8.16.1 kernel (coqc, full .vo build; coqchk in the thorough tier); no native_compute",
    "axioms: none (every theorem: Closed under the global context)",
    "extraction: ExtrOcamlBasic directives only (bool, option, unit, list, prod, sumbool, sumor, andb, orb)",
    "hand-written glue: ocaml/driver.ml, lib/svlib/*.py, gen/*.py, harness/src/*.rs",
    "modelled not verified: the Rust sources themselves (tied by the correspondence check on the inputs explored); "
    "hibitset bit sets as finite sets with ascending iteration; shred World/Fetch as plain ownership",
]

PROPS = {
    "C01": dict(
        domain="world", module="Props.C01",
        theorems=["C01_handles_unique", "C01_one_per_index", "C01_faithful_refines_spec", "C01_faithful_never_stuck"],
        required="spec",
        nontrivial="history reuses an index (a returned generation > 1) and contains a deferred operation",
    ),
    "C02": dict(
        domain="world", module="Props.C02",
        theorems=["C02_alive_on_return", "C02_dead_forever", "C02_failed_delete_changes_nothing",
                  "C02_batch_stops_at_first_dead", "C02_join_is_alive_set", "C02_join_sorted",
                  "C02_faithful_refines_spec"],
        required="spec",
        nontrivial="history contains a deletion and at least one probe reporting a dead handle",
    ),
    "C03": dict(
        domain="world", module="Props.C03",
        theorems=["C03_dead_handle_is_absent", "C03_stale_forever", "C03_lending_lookup_of_a_dead_handle",
                  "C03_restricted_lookup_of_a_dead_handle"],
        required="spec",
        nontrivial="a storage access goes through a handle whose index has been taken over by a later entity",
    ),
    "C04": dict(
        domain="world", module="Props.C04",
        theorems=["C04_raw_get", "C04_raw_insert", "C04_raw_write", "C04_raw_remove", "C04_raw_clean",
                  "C04_slice_vec", "C04_slice_default", "C04_slice_dense", "C04_api_same_on_all_kinds",
                  "C04_world_same_as_plain_map", "C04_faithful_same_as_plain_map", "C04_never_stuck"],
        required="faithful",
        nontrivial="at least one removal and one re-insertion or overwrite on a storage holding two or more components",
    ),
    "C17": dict(
        domain="world", module="Props.C17",
        theorems=["C17_index_bounded", "C17_fresh_only_when_full", "C17_faithful_refines_spec", "C17_refuted_unfixed"],
        required="spec",
        nontrivial="history reuses an index or contains a failing batch deletion",
    ),
    "C06": dict(
        domain="world", module="Props.C06",
        theorems=["C06_ascending_once", "C06_exactly_the_intersection", "C06_membership_per_member_kind",
                  "C06_bit_set_combinations",
                  "C06_join_visits_intersection", "C06_early_stop_is_a_prefix", "C06_optional_reported_correctly",
                  "C06_lending_same_indices", "C06_lending_lookup_by_entity", "C06_lending_lookup_by_index",
                  "C06_any_storage_kind_joins_like_the_map", "C06_same_join_under_both_allocators",
                  "C06_join_refines_the_join_on_maps", "C06_direct_lookup_is_the_cell", "C06_items_equal_direct_lookups",
                  "C06_mutation_lands_on_the_visited_entities_only", "C06_other_storages_untouched",
                  "C06_cells_after_a_join", "C06_drain_removes_the_visited_only", "C06_joins_are_never_stuck",
                  "C06_joins_add_no_member", "C06_bitset_tracks_the_plain_set",
                  "C06_bitset_iteration_is_the_ascending_element_list",
                  "C06_combined_masks_stand_for_the_combined_membership",
                  "C06_mask_iteration_yields_exactly_the_members_in_index_order",
                  "C06_the_layer_walk_over_a_joins_mask_yields_the_models_keys"],
        required="spec",
        nontrivial="history contains a join of at least two members that yields at least one item, over indices "
                   "on both sides of a layer boundary (64 / 4096) or with a negated / optional member",
    ),
    "C07": dict(
        domain="world", module="Props.C07",
        theorems=["C07_parallel_is_sequential", "C07_pool_size_irrelevant", "C07_each_index_exactly_once",
                  "C07_any_storage_kind", "C07_any_split_same_final_storages", "C07_any_split_same_indices",
                  "C07_any_split_same_items", "C07_visits_of_distinct_indices_do_not_interfere",
                  "C07_join_refines_the_join_on_maps", "C07_every_split_tree_yields_each_member_exactly_once",
                  "C07_a_split_loses_and_repeats_nothing"],
        required="spec",
        nontrivial="history contains a parallel join on a pool of at least two threads that yields at least two items",
    ),
    "C13": dict(
        domain="world", module="Props.C13",
        theorems=["C13_visits_the_storages_members", "C13_item_reads_its_own_index", "C13_direct_read_is_the_same",
                  "C13_other_entity_lookup", "C13_membership_unchanged", "C13_any_storage_kind",
                  "C13_writes_only_the_chosen_items", "C13_read_only_views_change_nothing",
                  "C13_join_refines_the_join_on_maps", "C13_event_only_for_items_fetched_mutably",
                  "C13_reading_emits_nothing", "C13_events_of_a_whole_join"],
        required="spec",
        nontrivial="history contains a join over a restricted storage with at least one item and one other-entity lookup",
    ),
    "C16": dict(
        domain="world", module="Props.C16",
        theorems=["C16_accumulates_in_arrival_order", "C16_collect", "C16_nothing_for_others",
                  "C16_every_mentioned_entity", "C16_extend_is_append", "C16_add_is_extend_by_one", "C16_ops_collect",
                  "C16_ops_extend", "C16_ops_add", "C16_ops_other_slots", "C16_member_of_a_join", "C16_each_index_once",
                  "C16_item_is_the_accumulated_amount", "C16_consumed_by_value",
                  "C16_each_amount_paired_once_with_its_entity", "C16_change_set_after_a_join",
                  "C16_join_refines_the_join_on_maps"],
        required="spec",
        nontrivial="history contains a change set with a repeated entity and a join over it that yields at least one item",
    ),
    "C08": dict(
        domain="world", module="Props.C08",
        theorems=["C08_never_exposes_an_unwritten_or_moved_out_slot", "C08_remove_hands_back_the_stored_value",
                  "C08_overwrite_hands_back_the_old_value", "C08_refused_insert_destroys_the_refused_value",
                  "C08_delete_destroys_exactly_that_value", "C08_clear_empties", "C08_vec_clean_destroys_the_masked_slots_once",
                  "C08_map_clean_destroys_every_value_once", "C08_null_clean_materialises_one_unit_per_member",
                  "C08_lazy_values_are_applied_or_destroyed", "C08_insert_conserves", "C08_remove_conserves",
                  "C08_get_mut_conserves", "C08_drain_conserves", "C08_deleting_entities_conserves",
                  "C08_entry_api_conserves", "C08_clear_conserves", "C08_get_mut_or_default_conserves",
                  "C08_every_storage_operation_conserves", "C08_a_join_hands_out_exactly_what_it_drained",
                  "C08_default_filled_insert_conserves", "C08_default_filled_remove_conserves",
                  "C08_default_filled_clear_destroys_every_cell_once", "C08_history_conserves",
                  "C08_everything_handed_back_or_destroyed_exactly_once"],
        required="spec",
        nontrivial="history moves at least five values in, hands at least one back, destroys at least one by deletion or "
                   "clear, and ends with the world being dropped",
    ),
    "C20": dict(
        domain="determinism", module="Props.C20",
        theorems=["C20_iteration_order_is_membership", "C20_join_order_is_membership",
                  "C20_serialisation_order_is_the_join_order"],
        required="faithful",
        nontrivial="history uses a hash-map based storage (ids 3, 9, 14)",
    ),
    "C18": dict(
        domain="derive", module="Props.C18",
        theorems=["C18_round_trip", "C18_round_trip_supported", "C18_entities_through_mapping",
                  "C18_panic_only_unmarked", "C18_supported_never_fails", "C18_tuple_fields_in_order",
                  "C18_named_fields_in_order", "C18_enum_by_name", "C18_variant_tuple_fields_in_order",
                  "C18_variant_named_fields_in_order", "C18_skip_verbatim", "C18_own_conversion",
                  "C18_data_has_derived_shape",
                  "C18_storage_default", "C18_storage_explicit", "C18_storage_implicit"],
        required="faithful",
        nontrivial="value with >= 3 nodes and an entity in a converted position, or a storage case",
    ),
    "C05": dict(
        domain="world", module="Props.C05",
        theorems=["C05_invariant", "C05_new_entity_has_no_component", "C05_deletion_purges_everywhere",
                  "C05_purge_keeps_the_others"],
        required="spec",
        nontrivial="an entity owning a component is deleted and its index is reused afterwards",
    ),
    "C12": dict(
        domain="world", module="Props.C12",
        theorems=["C12_events_replay_membership", "C12_replay_composes", "C12_insert_reports",
                  "C12_entity_deletion_reports", "C12_modified_exactly_on_mutable_access", "C12_read_only_is_silent",
                  "C12_events_of_join_accesses", "C12_a_join_reports_exactly_its_mutable_accesses_and_removals"],
        required="spec",
        nontrivial="a reader reads at least one insertion, one removal and one modification event",
    ),
    "C09": dict(
        domain="world", module="Props.C09",
        theorems=["C09_actions_after_merge_and_purge", "C09_fifo_exactly_once", "C09_performs_popped_actions",
                  "C09_action_runs_its_operations", "C09_queue_empty_after_maintain",
                  "C09_lazy_insert_on_dead_target", "C09_plain_history_unchanged"],
        required="faithful",
        nontrivial="a closure queues a further action and a lazy insert/remove meets a target that died in the same frame",
    ),
    "C11": dict(
        domain="dispatch", module="Props.C11",
        theorems=["C11_stages_conflict_free", "C11_stages_respect_deps", "C11_staged_exactly_once",
                  "C11_staged_ids_distinct", "C11_group_size_bounded",
                  "C11_builder_panics_only_on_unknown_dependency", "C11_run_exactly_once",
                  "C11_dependencies_complete_first", "C11_no_conflicting_overlap", "C11_borrow_never_refused",
                  "C11_all_steps_safe", "C11_borrow_never_refused_fine", "C11_decl_matches_fetch", "C11_decl_matches_fetch_tuple",
                  "C11_fetch_then_probe", "C11_fetch_order_irrelevant", "C11_handles_self_ok"],
        required="faithful",
        nontrivial="the real builder's tree has a stage with two groups and a forced sequencing; really dispatched",
    ),
    "C10": dict(
        domain="conc", module="Props.C10",
        theorems=["C10_handles_distinct", "C10_alive_from_return", "C10_delete_check_passes", "C10_delete_of_live_ok",
                  "C10_delete_recorded", "C10_final_state_sequential", "C10_final_state_refines",
                  "C10_results_linearisable",
                  "C10_queue_interleaving", "C10_never_stuck", "C10_programs_in_order", "C10_after_any_history"],
        required="faithful",
        nontrivial="an enumerated schedule in which at least one compare-exchange failed and was retried",
    ),
    "C14": dict(
        domain="saveload", module="Props.C14",
        theorems=["C14_serialize_image", "C14_serialize_panics_only_on_dangling", "C14_round_trip", "C14_bijection",
                  "C14_entity_count", "C14_serialize_data_spec", "C14_recursive_closure", "C14_recursive_round_trip",
                  "C14_recursive_fuel_enough"],
        required="faithful",
        nontrivial="history contains a round trip into an empty world whose data has at least two records and at "
                   "least one reference slot",
    ),
    "C15": dict(
        domain="saveload", module="Props.C15",
        theorems=["C15_history_invariant", "C15_batch_deletion_in_statement_order",
                  "C15_batch_deletion_keeps_invariant", "C15_invariant_empty", "C15_invariant_meaning", "C15_ids_unique",
                  "C15_mapping_agrees", "C15_counter_above", "C15_mark_existing", "C15_mark_fresh", "C15_load_merges",
                  "C15_load_components", "C15_load_removes_absent", "C15_load_untouched", "C15_repeated_load",
                  "C15_stale_not_trusted", "C15_alloc_maintain_exact", "C15_nonfresh_id_refuted",
                  "C15_u64_wrap_refuted"],
        required="faithful",
        nontrivial="history contains a load into a world that already holds one of the data's marker ids and that "
                   "also creates an entity, or a Mark of an already marked entity",
    ),
    "C19": dict(
        domain="unwind", module="Props.C19",
        theorems=["C19_nofault_clear", "C19_nofault_drop", "C19_nofault_insert",
                  "C19_nofault_remove", "C19_strong_is_MInv", "C19_MInv_implies_weak",
                  "C19_abandoned_loop", "C19_drop_glue", "C19_clear",
                  "C19_clear_leaks", "C19_drop_components", "C19_insert",
                  "C19_remove", "C19_get_returns_owned", "C19_join_returns_owned",
                  "C19_slice_returns_owned", "C19_step", "C19_no_double_drop",
                  "C19_teardown_no_double_drop", "C19_no_stale_read", "C19_invariant_after_any_history",
                  "C19_faulting_delete_leaves", "C19_delete_kills_first", "C19_maintain_merges_first",
                  "C19_other_storages_untouched", "C19_changeset_add", "C19_changeset_no_double_drop",
                  "C19_changeset_no_stale_read"],
        required="faithful",
        nontrivial="the armed destructor fault really fired and a later destroying operation (or at least two later "
                   "operations) ran on the surviving world",
    ),
}

# ------------------------------------------------------------------ known findings


def load_known_findings():
    path = os.path.join(ROOT, "KNOWN_FINDINGS")
    found, fixed = [], []
    if os.path.exists(path):
        for line in open(path):
            line = line.strip()
            if not line or line.startswith("#"):
                continue
            kind, _, rest = line.partition(":")
            fields = dict(t.split("=", 1) for t in rest.split() if "=" in t)
            entry = dict(kind=kind.strip(), property=fields.get("property"), cls=fields.get("class"), text=rest.strip())
            (found if kind.strip() == "finding" else fixed).append(entry)
    return found, fixed


def finding_class(pid, res):
    """name of the specific class of failing history a violation belongs to (or None)"""
    if pid == "C17" and res["acc_code"] == 3:
        # a fresh index taken while a free cell exists, after a batch deletion failed part-way
        pos = res["acc_pos"]
        for k, (code, p) in enumerate(res["hist"][:pos]):
            if code == wg.DM and k < len(res["impl"]):
                o = res["impl"][k]
                if len(o) >= 3 and o[0] == 2 and o[1] == 1 and o[2] >= 1:
                    return "failing-batch-leak"
    return None


# ------------------------------------------------------------------ proof obligations

def proof_obligations(pid, tier):
    info = dict(theorems=[], discharged=0, obligations=0, failures=[], axioms={})
    p = PROPS[pid]
    thms = p["theorems"]
    info["obligations"] = len(thms)
    bad = common.hygiene()
    if bad:
        info["failures"].append("forbidden vernacular: " + "; ".join(bad[:5]))
    mod_path = "theories/" + p["module"].replace(".", "/")
    ok, out = common.build_coq([mod_path + ".vo", mod_path + "_pins.vo", "theories/Extract/Extract.vo"])
    if not ok:
        tail = out[-3000:]
        info["failures"].append("coq build failed: " + tail)
        return info
    try:
        pa = common.print_assumptions(p["module"], thms)
    except RuntimeError as e:
        info["failures"].append(str(e)[-2000:])
        return info
    for t in thms:
        ax = pa.get(t)
        if ax is None:
            info["failures"].append("theorem %s not found" % t)
            continue
        extra = [a for a in ax if a not in common.ALLOWED_AXIOMS]
        info["axioms"][t] = ax
        if extra:
            info["failures"].append("theorem %s depends on axioms %s" % (t, extra))
        else:
            info["discharged"] += 1
            info["theorems"].append(t)
    if tier == "thorough" and not info["failures"]:
        ok, out = common.coqchk(["SV." + p["module"]])
        info["coqchk"] = "ok" if ok else out[-1500:]
        if not ok:
            info["failures"].append("coqchk failed")
    return info


# ------------------------------------------------------------------ world domain execution

def run_world(hists, fixed=True, release=False, domain="world"):
    """execute histories on the implementation and on the model; returns result dicts.
    Large batches are split into shards that run concurrently (order of results = order of hists).
    domain "world-unwinding": every history is driven from a destructor while a panic raised by the caller unwinds
    (only for histories known not to panic)."""
    exe = common.build_harness(release)
    drv = common.build_ocaml()
    d = common.run_dir()
    nshards = max(1, min(NSHARDS, len(hists) // 24))
    if nshards == 1:
        return run_world_shard(exe, drv, d, 0, hists, fixed, domain)
    import concurrent.futures
    # round-robin so that the expensive histories spread over the shards
    parts = [hists[k::nshards] for k in range(nshards)]
    with concurrent.futures.ThreadPoolExecutor(nshards) as ex:
        outs = list(ex.map(lambda kp: run_world_shard(exe, drv, d, kp[0], kp[1], fixed, domain), enumerate(parts)))
    res = [None] * len(hists)
    for k, part in enumerate(outs):
        for j, r in enumerate(part):
            res[k + j * nshards] = r
    return res


NSHARDS = int(os.environ.get("SV_SHARDS", "12"))


def run_world_shard(exe, drv, d, shard, hists, fixed, domain="world"):
    hf = os.path.join(d, "hist%d.txt" % shard)
    tf = os.path.join(d, "impl%d.txt" % shard)
    with open(hf, "w") as f:
        for h in hists:
            f.write(wg.encode(h) + "\n")
    impl_lines = run_harness(exe, domain, hf, hists, shard)
    # the last entry of every line is the harness' own construction / hand-back ledger (tag 98): not part of the
    # transcript the model predicts
    ledgers = []
    for k, ln in enumerate(impl_lines):
        head, sep, last = ln.rpartition("|")
        if last.strip().startswith("98 ") or last.strip() == "98":
            ledgers.append([int(x) for x in last.split()])
            impl_lines[k] = head.rstrip()
        else:
            ledgers.append(None)
    with open(tf, "w") as f:
        f.write("\n".join(impl_lines) + "\n")
    p = subprocess.run([drv, "world", "1" if fixed else "0", hf, tf], stdout=subprocess.PIPE, text=True, timeout=7200,
                       preexec_fn=common.unlimit_stack)
    if p.returncode != 0:
        raise RuntimeError("model driver failed")
    lines = p.stdout.split("\n")
    res = []
    for k, h in enumerate(hists):
        model = parse_tr(lines[2 * k])
        v = lines[2 * k + 1].split()
        assert v[0] == "V"
        v = [int(x) for x in v[1:]]
        full = parse_tr(impl_lines[k])
        res.append(dict(hist=h, impl=full[0::2], effects=full[1::2], impl_full=full, model=model, eq=v[0],
                        complete=v[1], acc_pos=v[2], acc_code=v[3], c01d=v[4], c02d=v[5], extra=v[6:],
                        ledger=ledgers[k], domain=domain))
    return res


def parse_tr(line):
    line = line.strip()
    if not line:
        return []
    return [[int(x) for x in part.split()] for part in line.split("|")]


def run_harness(exe, domain, hf, hists, shard=0):
    # a handful of histories (shrinking, replay): a case that does not return is given up after 45 s
    env = dict(os.environ, SV_WATCHDOG_SECS="45") if len(hists) <= 3 else None
    p = subprocess.run([exe, domain, hf], stdout=subprocess.PIPE, text=True, timeout=7200, env=env)
    if p.returncode == 0:
        lines = p.stdout.rstrip("\n").split("\n") if hists else []
        if len(lines) == len(hists):
            return lines
    # the process died (possible after a memory-safety mutation): one history at a time
    log("harness crashed (rc=%s); re-running one history at a time" % p.returncode)
    out = []
    d = common.run_dir()
    one = os.path.join(d, "one%d.txt" % shard)
    failures = 0
    env = dict(os.environ, SV_WATCHDOG_SECS="45")
    for h in hists:
        if failures >= 4:
            # enough of them to report and to shrink from; the rest of this shard is not worth a watchdog period each
            out.append("99")
            continue
        with open(one, "w") as f:
            f.write(wg.encode(h) + "\n")
        try:
            q = subprocess.run([exe, domain, one], stdout=subprocess.PIPE, text=True, timeout=600, env=env)
            ok = q.returncode == 0 and q.stdout.strip()
        except subprocess.TimeoutExpired:
            ok = False
        if ok:
            out.append(q.stdout.strip().split("\n")[0])
        else:
            failures += 1
            out.append("99")      # crash / hang marker: undecodable, so `complete` is false
    return out


# ------------------------------------------------------------------ classification (world domain)

CREATION = (wg.C, wg.CX, wg.CI, wg.EC, wg.ECI, wg.EB, wg.LC)


def world_violation(pid, r):
    """returns a short description if result r shows property pid violated, else None"""
    if not r["complete"] and not r["eq"]:
        # (a panic the faithful model predicts at the same point - e.g. the documented panic on an
        # unregistered component - is not a divergence)
        return "implementation panicked or produced an undecodable output where the model does not"
    pos, code = r["acc_pos"], r["acc_code"]
    if code != 0 and r["eq"] and 0 <= pos < len(r["impl"]) and r["impl"][pos] == [9]:
        # the implementation panicked at this operation and the faithful model predicts that very panic (a documented
        # panic such as fetching an unregistered component): the specification has nothing to say about it
        code = 0
    # the code of the rejected operation as the model reports it (positions count performed operations,
    # which differ from history positions when lazy actions are involved)
    op = r["extra"][1] if len(r.get("extra", [])) >= 2 and code != 0 else None
    if pid == "C01":
        if not r["c01d"]:
            return "a handle was returned twice, or two entities reported alive share an index"
        if code == 2:
            return "a creation returned an index whose entity is not dead (op %d)" % pos
        if code == 1 and op in CREATION:
            return "a creation returned a generation the lifecycle specification forbids (op %d)" % pos
    if pid == "C02":
        if not r["c02d"]:
            return "a handle reported dead was reported alive again"
        if code == 1 and op in (wg.D, wg.DM, wg.ED, wg.DA, wg.M, 20, 21, wg.JE, 23, wg.PROBE):
            return "aliveness / deletion result / entities join differs from the create-delete-maintain timeline (op %d: %s)" % (
                pos, wg.NAMES.get(op, op))
    if pid == "C17":
        if code == 3:
            return "a never-used index was taken while a dead entity's index was free (op %d)" % pos
    stale = bool(r["extra"][0]) if r.get("extra") else False
    is_store = op is not None and 30 <= op <= 42
    if pid == "C03":
        if code in (1, 4) and (is_store or op == jg.JOIN) and stale:
            return "an access through a dead handle did not behave as absent (op %d: %s)" % (pos, wg.NAMES.get(op, op))
        if code == 4 and op == wg.M and stale:
            # (the stale flag of a maintain: one of the deferred operations it performed had a dead target)
            return ("a deferred insert / remove whose target was dead by then did not behave as a no-op that destroys "
                    "its value (maintain at op %d)" % pos)
    if pid == "C05":
        if code == 1 and op in (sg.GET, sg.CONT, sg.MSK, sg.CNT, sg.EMP):
            return ("component membership differs from the specification after a deletion / creation "
                    "(op %d: %s): a component survived its entity, was inherited, or another entity lost one" % (
                        pos, wg.NAMES.get(op, op)))
        if code == 4 and op in (wg.D, wg.DM, wg.DA, wg.M, wg.ED):
            return "the values destroyed by a deletion differ from the components of the deleted entities (op %d)" % pos
    if pid == "C12":
        if code == 1 and op == sg.RREAD:
            return "the events delivered to a reader differ from the operations performed (op %d)" % pos
    if pid == "C09":
        # anything the lazy layer gets wrong shows in the operations performed by a maintain (their results, what
        # they destroy) or in what is visible afterwards
        if code in (1, 4) and op is not None:
            return "deferred work was not applied exactly once, in order, after the merge (first difference at op code %s)" % op
    if pid == "C04":
        if code == 1 and is_store and not stale:
            return "a storage operation returned something else than the plain map (op %d: %s)" % (pos, wg.NAMES.get(op, op))
    if pid in ("C08", "C16"):
        d = amounts_violation(r)
        if d:
            return d
    if pid == "C08":
        d = ledger_violation(r)
        if d:
            return d
        if code == 4:
            return "the values destroyed by an operation differ from the specification (op %d: %s)" % (pos, wg.NAMES.get(op, op))
        if code == 1 and op in (sg.INS, sg.REM, sg.DRN, sg.ENT, sg.GET, sg.GETM, sg.SLC, sg.GMD, jg.JOIN):
            return "a value handed back or shown by an operation differs from the specification (op %d: %s)" % (
                pos, wg.NAMES.get(op, op))
    if pid in JOIN_PROPS:
        d = join_direct(pid, r)
        if d:
            return d
        if code in (1, 4) and op is not None and (op in JOIN_OBS):
            what = {"C06": "a join did not yield exactly the intersection in index order with each index's own "
                           "components, or a mutation made through an item is not what is visible afterwards",
                    "C07": "a parallel join did not deliver the items of the sequential join exactly once, or its "
                           "mutations are not what is visible afterwards",
                    "C13": "a restricted storage did not expose the storage's own components / membership / lookup "
                           "rules, or modification events differ from the items fetched mutably",
                    "C16": "a change set does not hold the per-entity combination of its amounts in arrival order, "
                           "or a join did not pair / consume each accumulated amount exactly once"}[pid]
            return "%s (op %d: %s)" % (what, pos, wg.NAMES.get(op, op))
    return None


JOIN_PROPS = ("C06", "C07", "C13", "C16")
JOIN_OBS = set([80, 81, 82, 83, 84, 85, 86, sg.GET, sg.CONT, sg.MSK, sg.CNT, sg.EMP, sg.RREAD, wg.JE, sg.DRN, sg.REM, sg.GETM])


def join_rows(o, nm):
    """rows [(idx, raw item ints)] of a join output entry [21, n, ...]; None if it is not one"""
    if not o or o[0] != 21:
        return None
    return o


def join_direct(pid, r):
    """checks on the implementation's transcript alone (no model): available when no lazy closure shifts the
    positions.  C06/C13/C16: a sequential / lending join lists strictly ascending indices.  C07: a parallel join
    that directly follows the same read-only join run sequentially delivers the same rows."""
    if any(c == sg.LEXEC for c, _ in r["hist"]):
        return None
    prev = None
    for k, (c, p) in enumerate(r["hist"]):
        if k >= len(r["impl"]):
            break
        o = r["impl"][k]
        if c == jg.JOIN and o and o[0] == 21 and len(p) >= 3:
            if pid == "C07" and p[0] == 2 and prev is not None and prev[0] == p[2:] and prev[1] != o:
                return "a parallel join delivered other items than the same join run sequentially just before (op %d)" % k
            prev = (p[2:], o) if (p[0] == 0 and p[1] == -1 and members_read_only(p)) else None
        else:
            prev = None
    return None


def members_read_only(p):
    try:
        i = 3
        for _ in range(p[2]):
            while p[i] == 5:
                i += 1
            c = p[i]
            if c in (1, 7, 8) or (c == 6 and p[i + 2] != 0):
                return False
            i = jg.parse_member(p, i)[1]
        return True
    except (IndexError, ValueError, KeyError):
        return False


DEFAULT_UID = 1 << 40


def amounts_violation(r):
    """C16 / C08 on the implementation alone: every change-set amount the harness made was destroyed exactly once by the
    end of the history (the consuming joins hand amounts to the harness, which drops them; the slots die with it)"""
    lg = r.get("ledger")
    if not lg or lg[0] != 98:
        return None
    i = 2
    nc = lg[i]; i += 1 + nc
    nr = lg[i]; i += 1 + nr
    if i >= len(lg) or lg[i] < 0:
        return None
    i += 1 + lg[i]
    if i + 1 >= len(lg):
        return None
    made, gone = lg[i], lg[i + 1]
    if made > gone:
        return "%d change-set amounts were made but only %d destroyed by the end of the history (leaked)" % (made, gone)
    if gone > made:
        return "%d change-set amounts were made but %d destroyed (an amount was destroyed twice)" % (made, gone)
    return None


def ledger_violation(r):
    """C08 on the implementation alone: the harness' ledger of constructed and handed-back values against
    the values destroyed (effects entries + teardown)."""
    lg = r.get("ledger")
    if not lg or lg[0] != 98:
        return None
    exposed = lg[1]
    if exposed:
        return "a value that had already been destroyed or handed back was looked at %d time(s)" % exposed
    i = 2
    nc = lg[i]; cons = lg[i + 1:i + 1 + nc]; i += 1 + nc
    nr = lg[i]; rets = lg[i + 1:i + 1 + nr]; i += 1 + nr
    if i >= len(lg) or lg[i] < 0:
        return None            # the history ended in a panic: the world was forgotten, nothing more to account
    nd = lg[i]; final = lg[i + 1:i + 1 + nd]
    drops = list(final)
    mints = 0
    for e in r["effects"]:
        if e and e[0] == 10:
            mints += e[1]
            drops += e[3:3 + e[2]]
    # values without identity (the unit values of the null storage, uid 0, and default-constructed values) are
    # accounted together: a default-constructed unit value is destroyed as uid 0
    anon = lambda u: DEFAULT_UID if u == 0 else u
    c_in = collections.Counter(anon(u) for u in cons)
    c_in[DEFAULT_UID] += mints
    c_out = collections.Counter(anon(u) for u in rets) + collections.Counter(anon(u) for u in drops)
    for u, n in c_out.items():
        if n > c_in.get(u, 0):
            return "value %s was handed back or destroyed %d time(s) but moved in %d time(s)" % (
                "default/unit" if u == DEFAULT_UID else u, n, c_in.get(u, 0))
    for u, n in c_in.items():
        if c_out.get(u, 0) < n:
            return "value %s was moved in %d time(s) but handed back or destroyed only %d time(s) (leaked)" % (
                "default/unit" if u == DEFAULT_UID else u, n, c_out.get(u, 0))
    return None


def nontrivial_world(pid, r):
    reuse = any(o and o[0] == 1 and any(g > 1 for g in o[3::2]) for o in r["impl"])
    codes = set(c for c, _ in r["hist"])
    if pid == "C01":
        return reuse and bool(codes & {wg.CX, wg.EC, wg.ECI, wg.EB, wg.LC, wg.ED})
    if pid == "C02":
        has_del = bool(codes & {wg.D, wg.DM, wg.ED, wg.DA, wg.CX})
        dead_probe = any(o and o[0] == 5 and 0 in o[2:] for o in r["impl"])
        return has_del and dead_probe
    if pid == "C17":
        failing = any(o and o[0] == 2 and o[1] == 1 for o in r["impl"])
        return reuse or failing
    if pid == "C03":
        if any(c in (sg.LINS, sg.LINSALL, sg.LREM, sg.LEXEC, wg.LC) for c, _ in r["hist"]):
            # deferred operations: non-trivial when something is deleted as well (a target may be dead by the maintain)
            return any(c in (wg.D, wg.DM, wg.ED, wg.DA) for c, _ in r["hist"])
        # handles in order of return, with their indices
        hs = []
        born = []
        for k, o in enumerate(r["impl"]):
            if o and o[0] == 1 and r["hist"][k][0] in CREATION:
                for i in o[2::2]:
                    hs.append(i)
                    born.append(k)
        for k, (c, p) in enumerate(r["hist"]):
            if 30 <= c <= 42 and c not in (35, 36, 37, 38, 39, 40) and len(p) >= 2 and 0 <= p[1] < len(hs):
                h = p[1]
                if any(hs[j] == hs[h] and j > h and born[j] < k for j in range(len(hs))):
                    return True
        return False
    if pid == "C04":
        return (sg.REM in codes or sg.DRN in codes) and sg.INS in codes
    if pid == "C12":
        kinds = set()
        for k, o in enumerate(r["impl"]):
            if o and o[0] == 18:
                kinds |= set(o[2::2])
        return kinds >= {0, 1, 2}
    if pid == "C09":
        nested = any(c == sg.LEXEC and sg.LEXEC in p[::1] for c, p in r["hist"])
        lazy_ops = sum(1 for c, _ in r["hist"] if c in (sg.LINS, sg.LINSALL, sg.LREM, sg.LEXEC, wg.LC))
        return nested and lazy_ops >= 3 and bool(codes & {wg.D, wg.ED, wg.DM})
    if pid in JOIN_PROPS:
        if any(c == sg.LEXEC for c, _ in r["hist"]):
            return False
        for k, (c, p) in enumerate(r["hist"]):
            if c != jg.JOIN or k >= len(r["impl"]) or len(p) < 3:
                continue
            o = r["impl"][k]
            if not o or o[0] != 21 or o[1] < 1:
                continue
            txt = jg.pretty_join(p)
            if pid == "C06" and p[2] >= 2 and ("!" in txt or "maybe" in txt or o[1] >= 2):
                return True
            if pid == "C07" and p[0] == 2 and p[1] >= 2 and o[1] >= 2:
                return True
            if pid == "C13" and "restrict" in txt and "others=[]" not in txt:
                return True
            if pid == "C16" and "cs" in txt:
                return True
        return False
    if pid == "C08":
        lg = r.get("ledger")
        if not lg or lg[0] != 98 or lg[2] < 5:
            return False
        nr = lg[3 + lg[2]]
        destroyed = any(e and e[0] == 10 and e[2] > 0 for e in r["effects"][:-1])
        return nr >= 1 and destroyed and r["hist"][-1][0] == sg.DROPW
    if pid == "C05":
        has_comp = any(c in (wg.C, wg.CX, wg.EB) and len(p) >= 3 for c, p in r["hist"]) or sg.INS in codes
        return reuse and has_comp and bool(codes & {wg.D, wg.DM, wg.ED, wg.DA})
    return True


def gen_store(pid, tier, seed, scale, rng, hists, stats):
    q = tier == "quick"
    if pid == "C03":
        for _ in range((400 if q else 4000) * scale):
            hists.append(sg.stale_history(rng))
            stats["stale-handle probe matrices"] += 1
        for _ in range((150 if q else 1500) * scale):
            hists.append(sg.random_store_history(rng, rng.randint(10, 60)))
            stats["random storage histories"] += 1
        # deferred operations whose targets die before the maintain that performs them
        for _ in range((150 if q else 1500) * scale):
            hists.append(sg.lazy_history(rng, rng.randint(8, 40)))
            stats["lazy histories (targets dead by the time of the maintain)"] += 1
        for _ in range((60 if q else 600) * scale):
            hists.append(sg.lazy_purge_history(rng))
            stats["lazy purge histories"] += 1
        # dead and stale handles through the join paths: lending lookup by entity, get_other / get_other_mut
        for focus in ("restrict", "join"):
            for _ in range((120 if q else 1500) * scale):
                hists.append(jg.join_history(rng, rng.randint(6, 30), focus))
                stats["%s-focused join histories (stale handles through joins)" % focus] += 1
    if pid == "C05":
        for _ in range((700 if q else 7000) * scale):
            hists.append(sg.purge_history(rng))
            stats["purge histories"] += 1
        for _ in range((200 if q else 2000) * scale):
            hists.append(sg.lazy_purge_history(rng))
            stats["deferred deletion + entity-creating closure in one maintain"] += 1
        for _ in range((100 if q else 1000) * scale):
            hists.append(sg.random_store_history(rng, rng.randint(10, 60)))
            stats["random storage histories"] += 1
        for _ in range((25 if q else 250) * scale):
            hists.append(sg.mid_history(rng))
            stats["indices around 4096"] += 1
        for _ in range((150 if q else 1500) * scale):
            hists.append(sg.atomic_frame_history(rng))
            stats["atomic creations, same-frame deletions"] += 1
    if pid == "C12":
        for _ in range((600 if q else 6000) * scale):
            hists.append(sg.events_history(rng, rng.randint(15, 80 if q else 200)))
            stats["event histories"] += 1
        # mutable access through joins and restricted items, with readers and the emission switch
        for focus in ("join", "restrict"):
            for _ in range((250 if q else 2500) * scale):
                hists.append(jg.join_history(rng, rng.randint(8, 30), focus))
                stats["%s-focused join histories" % focus] += 1
        for _ in range((60 if q else 600) * scale):
            hists.append(sg.atomic_frame_history(rng))
            stats["atomic creations on recycled indices"] += 1
    if pid == "C09":
        for _ in range((900 if q else 9000) * scale):
            hists.append(sg.lazy_history(rng, rng.randint(8, 45 if q else 120)))
            stats["lazy histories"] += 1
        for _ in range((12 if q else 120) * scale):
            hists.append(sg.lazy_flood_history(rng))
            stats["lazy histories with several hundred pending actions"] += 1
        for _ in range((40 if q else 400) * scale):
            hists.append(sg.lazy_chain_history(rng))
            stats["lazy cascades 5 to 12 levels deep"] += 1
    if pid in JOIN_PROPS:
        if pid in ("C07", "C13"):
            for _ in range((3 if q else 40) * scale):
                hists.append(jg.hash_stress_history(rng))
                stats["hash-map storages under parallel restricted access"] += 1
        if pid in ("C07", "C06"):
            for _ in range((4 if q else 40) * scale):
                hists.append(jg.anti_block_history(rng))
                stats["negated storage with a component in every word of a 4096-index block"] += 1
        foci = {"C06": [("join", 5), ("restrict", 1), ("changeset", 1), ("par", 1)],
                "C07": [("par", 1)], "C13": [("restrict", 1)], "C16": [("changeset", 1)]}[pid]
        total = (360 if q else 5000) * scale
        wsum = sum(w for _, w in foci)
        for focus, w in foci:
            for _ in range(total * w // wsum):
                h = jg.join_history(rng, rng.randint(6, 30 if q else 80), focus)
                if pid == "C07":
                    h = with_seq_twins(h)
                hists.append(h)
                stats["%s-focused join histories" % focus] += 1
        if pid in ("C07", "C06"):
            # masks that live entirely in one top-layer block other than the first (indices >= 64^3): bit sets, alone
            # or with optional / negated storage members; sequential twin first
            for _ in range((40 if q else 400) * scale):
                base = rng.choice([1, 2, 3, 17, 63]) * 262144        # all values stay inside that block (< 2^24)
                shift = rng.choice([0, 0, 4096 * rng.randrange(60)])
                bits = sorted(set(base + (shift + rng.choice([0, 1, 63, 64, 65, 4095, 4096, 4097, rng.randrange(200000)])) % 262144
                                  for _ in range(rng.randint(1, 8))))
                members = [3, len(bits)] + bits
                nm = 1
                h = [(sg.REG, [0]), (wg.CI, [rng.randint(2, 6)])]
                if rng.random() < 0.5:
                    members += [5, 0, 0]          # &S0.maybe()
                    nm += 1
                if rng.random() < 0.3:
                    members += [4, 0]            # !&S0
                    nm += 1
                kind_arg = [2, rng.choice([1, 2, 4, 8, 32])] if pid == "C07" or rng.random() < 0.5 else [rng.choice([0, 1]), -1]
                h.append((jg.JOIN, [0, -1, nm] + members))
                h.append((jg.JOIN, kind_arg + [nm] + members))
                h.append((sg.DROPW, []))
                hists.append(h)
                stats["bit sets inside one high top-layer block"] += 1
    if pid == "C08":
        for sid in range(sg.NSIDS):
            for _ in range((12 if q else 150) * scale):
                hists.append(sg.map_history(rng, rng.randint(10, 60 if q else 200), [sid]) + [(sg.DROPW, [])])
                stats["per-kind map histories"] += 1
        for _ in range((150 if q else 2000) * scale):
            hists.append(sg.map_history(rng, rng.randint(10, 80)) + [(sg.DROPW, [])])
            stats["mixed-kind map histories"] += 1
        for _ in range((150 if q else 2000) * scale):
            hists.append(sg.purge_history(rng))
            stats["purge histories"] += 1
        for _ in range((150 if q else 2000) * scale):
            hists.append(sg.lazy_history(rng, rng.randint(8, 45 if q else 120)))
            stats["lazy histories"] += 1
        for _ in range((100 if q else 1500) * scale):
            hists.append(sg.random_store_history(rng, rng.randint(10, 60)) + [(sg.DROPW, [])])
            stats["random storage histories"] += 1
        for focus in ("join", "changeset"):
            for _ in range((50 if q else 700) * scale):
                hists.append(jg.join_history(rng, rng.randint(6, 30), focus))
                stats["%s-focused join histories" % focus] += 1
    if pid == "C04":
        for sid in range(sg.NSIDS):
            for _ in range((40 if q else 400) * scale):
                hists.append(sg.map_history(rng, rng.randint(10, 70 if q else 200), [sid]))
                stats["per-kind map histories"] += 1
        for _ in range((300 if q else 3000) * scale):
            hists.append(sg.map_history(rng, rng.randint(10, 80)))
            stats["mixed-kind map histories"] += 1
        if FAR_OK:
            for sid in (rng.sample(range(sg.NSIDS), 1) if q else range(sg.NSIDS)):
                hists.append(sg.far_history(rng, sid))
                stats["far-apart indices (>= 64^3)"] += 1
        for _ in range((200 if q else 2000) * scale):
            hists.append(sg.random_store_history(rng, rng.randint(10, 60)))
            stats["random storage histories"] += 1
        for sid in (rng.sample(range(sg.NSIDS), 10) if q else list(range(sg.NSIDS)) * 4):
            hists.append(sg.mid_history(rng, [sid]))
            stats["indices around 4096"] += 1
        for _ in range((120 if q else 1200) * scale):
            hists.append(sg.atomic_frame_history(rng))
            stats["atomic creations on recycled indices"] += 1


FAR_OK = True

STORE_PROPS = ("C03", "C04", "C05", "C08", "C09", "C12") + JOIN_PROPS


def with_seq_twins(h):
    """before every parallel join over read-only members, the same join run sequentially (C07's direct check)"""
    out = []
    for c, p in h:
        if c == jg.JOIN and len(p) >= 3 and p[0] == 2 and members_read_only(p):
            out.append((c, [0, -1] + list(p[2:])))
        out.append((c, p))
    return out


def gen_world(pid, tier, seed, scale=1):
    rng = random.Random(seed * 1000003 + sum(map(ord, pid)))
    hists = []
    stats = collections.Counter()
    if pid in STORE_PROPS:
        cdir = os.path.join(ROOT, "gen", "corpus", pid)
        if os.path.isdir(cdir):
            for f in sorted(os.listdir(cdir)):
                for line in open(os.path.join(cdir, f)):
                    if line.strip():
                        hists.append(wg.decode(line))
                        stats["corpus"] += 1
        gen_store(pid, tier, seed, scale, rng, hists, stats)
        return hists, stats
    # 1. corpus of minimised failures first
    cdir = os.path.join(ROOT, "gen", "corpus", pid)
    if os.path.isdir(cdir):
        for f in sorted(os.listdir(cdir)):
            for line in open(os.path.join(cdir, f)):
                if line.strip():
                    hists.append(wg.decode(line))
                    stats["corpus"] += 1
    # 2. bounded-exhaustive enumeration (validates the model against the code)
    depth = 4 if tier == "quick" else 5
    for h in wg.enumerate_histories(depth):
        hists.append(wg.with_probes(h))
        stats["enumerated(len<=%d)" % depth] += 1
    # 3. structured random
    n_rand = (1500 if tier == "quick" else 12000) * scale
    for _ in range(n_rand):
        h = wg.random_history(rng, rng.randint(8, 60 if tier == "quick" else 160))
        hists.append(wg.with_probes(h, every=rng.choice([1, 1, 2, 5])))
        stats["random"] += 1
    for _ in range((300 if tier == "quick" else 3000) * scale):
        hists.append(wg.with_probes(wg.leak_pattern(rng)))
        stats["failing-batch patterns"] += 1
    # deletions and creations requested from inside lazy closures (they take effect at the maintain after the one
    # that runs the closure), observed by probing every handle
    for _ in range((150 if tier == "quick" else 1500) * scale):
        h = sg.lazy_history(rng, rng.randint(8, 40))
        out = []
        for op in h:
            out.append(op)
            if op[0] in (wg.M, wg.D, wg.ED, wg.DM):
                out.append((wg.PROBE, []))
                out.append((wg.JE, []))
        hists.append(out)
        stats["lazy closures creating / deleting entities, probed"] += 1
    if pid == "C17":
        for _ in range((6 if tier == "quick" else 40) * scale):
            # handle positions are unary numbers in the extracted model: a history referring to handle k costs O(k) per
            # reference, so the long histories stay below ~3000 handles
            n = rng.choice([300, 1000, 3000] if tier == "quick" else [1000, 3000, 8000])
            hists.append(wg.long_history(rng, n) + [(wg.JE, [])])
            stats["long churn"] += 1
    return hists, stats


def shrink_world(pid, hist, fixed=True, domain="world"):
    """delta debugging on the op list, keeping `world_violation(pid, .)` of the same kind (a shorter history
    that fails for another reason - e.g. because removing a registration makes it panic - is not a reduction)"""
    def kind(v):
        return None if v is None else v.split(" (op ")[0][:60]

    want = kind(world_violation(pid, run_world([list(hist)], fixed, domain=domain)[0]))

    def fails(h):
        if not h:
            return False
        r = run_world([h], fixed, domain=domain)[0]
        if domain != "world" and any(o == [9] for o in r["impl"]):
            return False        # (a panic inside a history driven while unwinding would abort the process)
        v = world_violation(pid, r)
        return v is not None and (want is None or kind(v) == want)

    cur = list(hist)
    n = 2
    budget = 120
    deadline = time.time() + 900          # an implementation that hangs costs a watchdog period per attempt
    while len(cur) >= 2 and budget > 0 and time.time() < deadline:
        chunk = max(1, len(cur) // n)
        reduced = False
        for i in range(0, len(cur), chunk):
            cand = cur[:i] + cur[i + chunk:]
            budget -= 1
            if cand and fails(cand):
                cur, n, reduced = cand, max(n - 1, 2), True
                break
            if budget <= 0 or time.time() > deadline:
                break
        if not reduced:
            if chunk == 1:
                break
            n = min(n * 2, len(cur))
    return cur


def summarize(r):
    return dict(history=wg.pretty(r["hist"]), encoded=wg.encode(r["hist"]),
                impl=" | ".join(" ".join(map(str, o)) for o in r["impl_full"]),
                model=" | ".join(" ".join(map(str, o)) for o in r["model"]),
                faithful_equal=bool(r["eq"]), spec_accept=(r["acc_code"] == 0),
                spec_reject_pos=r["acc_pos"], spec_reject_code=r["acc_code"],
                harness_domain=r.get("domain", "world"))


def check_world(pid, tier, seed):
    t0 = time.time()
    p = PROPS[pid]
    proof = proof_obligations(pid, tier)
    hists, gstats = gen_world(pid, tier, seed)
    results = run_world(hists, fixed=True)
    if tier == "thorough":
        # release build as well: no overflow checks / debug assertions
        rel = run_world(hists[: min(len(hists), 20000)], fixed=True, release=True)
        results = results + rel
    # ambient thread state must not matter: a sample of the histories in which nothing panicked is driven once more
    # from a destructor while a panic raised by the caller unwinds; those results are judged like the others
    calm = [r["hist"] for r in results if not any(o == [9] for o in r["impl"])]
    cap = 150 if tier == "quick" else 1500
    # (first the histories that abandon builders or queue lazy work - code that has destructors of its own -, then a
    # stride through the rest)
    own = [h for h in calm if any(c in (wg.CX, wg.EB, wg.LC, sg.LEXEC, sg.DRN, 80) for c, _ in h)]
    rest = [h for h in calm if h not in own] if len(calm) < 20000 else []
    pick = own[::max(1, len(own) // (2 * cap))][:2 * cap] + rest[::max(1, len(rest) // cap)][:cap]
    if pid == "C17":
        # without the probes: the first thing the specification can object to is then the index a creation takes
        pick = [[(c, p) for c, p in h if c != wg.PROBE] for h in pick]
    unw = run_world(pick, fixed=True, domain="world-unwinding") if pick else []
    gstats["driven once more while a caller's panic unwinds"] = len(unw)
    results = results + unw
    known, _fixed = load_known_findings()
    known_cls = {(k["property"], k["cls"]): k for k in known}
    violations, known_hits, diverged = [], collections.OrderedDict(), []
    ophist = collections.Counter()
    errkinds = collections.Counter()
    distinct = set()
    nontriv = set()
    for r in results:
        key = hashlib.sha1(wg.encode(r["hist"]).encode()).hexdigest()
        distinct.add(key)
        for c, _ in r["hist"]:
            ophist[wg.NAMES.get(c, str(c))] += 1
        for o in r["impl"]:
            if o and o[0] in (2, 3) and o[1] == 1:
                errkinds["wrong-generation(delete)" if o[0] == 2 else "wrong-generation(deferred delete)"] += 1
            if o and o[0] == 9:
                errkinds["panic"] += 1
        if nontrivial_world(pid, r):
            nontriv.add(key)
        v = world_violation(pid, r)
        if v:
            cls = finding_class(pid, r)
            if cls and (pid, cls) in known_cls:
                known_hits.setdefault(cls, r)
            else:
                violations.append((v, r))
        elif not r["eq"]:
            diverged.append(r)
    # expected buckets: a dead generator must not go unnoticed
    needs = {"C03": ("Create", "Delete", "Insert", "Get", "GetMut", "Remove", "Entry", "GetMutOrDefault", "Contains"),
             "C05": ("Create", "Delete", "DeleteMany", "EDelete", "DeleteAll", "Maintain", "CreateDropped", "EBuild",
                     "Insert", "Get", "Mask", "Register"),
             "C12": ("RegReader", "ReadEvents", "SetEmission", "Insert", "GetMut", "Remove", "Entry", "Drain", "Delete",
                     "EDelete", "Maintain", "Create", "GetMutOrDefault"),
             "C09": ("LazyInsert", "LazyInsertAll", "LazyRemove", "LazyExec", "LazyCreate", "Maintain", "Delete", "EDelete"),
             "C04": ("Insert", "Get", "GetMut", "Remove", "Entry", "Drain", "Clear", "Slice", "Mask", "Count"),
             "C08": ("Insert", "Remove", "Drain", "Entry", "Clear", "Delete", "DeleteMany", "Maintain", "LazyInsert",
                     "GetMutOrDefault", "DropWorld", "Create", "CreateDropped"),
             "C06": ("Join", "Insert", "Get", "Mask", "DeleteMany", "Maintain", "CreateIter"),
             "C07": ("Join", "Insert", "Get", "Mask", "DeleteMany", "CreateIter"),
             "C13": ("Join", "Insert", "Get", "Mask", "RegReader", "ReadEvents", "DeleteMany"),
             "C16": ("Join", "CsAdd", "CsCollect", "CsExtend", "CsClear", "CsDump", "Insert")}
    for need in needs.get(pid, ("Create", "DeleteMany", "EDelete", "Maintain", "ProbeAll", "ECreate")):
        if ophist[need] == 0:
            proof["failures"].append("generator bucket empty: " + need)

    search_note = None
    if (proof["failures"] or diverged) and not violations:
        # failing-input search: ten times the budget, seeds derived from the run seed
        extra, _ = gen_world(pid, "quick", seed + 7919, scale=10)
        for r in run_world(extra, fixed=True):
            v = world_violation(pid, r)
            if v and not ((pid, finding_class(pid, r)) in known_cls):
                violations.append((v, r))
                break
        search_note = "failing-input search over %d further histories: %s" % (
            len(extra), "found" if violations else "none found")

    # the masks themselves: the layered bit set of the model against the one the implementation is built on
    mask_tie = None
    mask_bad = []
    if pid in ("C06", "C07"):
        from . import hibit_check
        import hibit_gen
        _res, mask_bad, mstats = hibit_check.explore(600 if tier == "quick" else 40000, seed)
        mask_tie = dict(mstats, disagreements=len(mask_bad),
                        what="layers after add/remove, membership, sequential iteration and the leaves of a tree of "
                             "BitProducer splits, for plain and combined (and / or / xor / and-not) sets: real "
                             "hibitset types through the harness vs the extracted model (Bits/Hibit.v)")

    # C12 under destructor faults: events still replay to the membership (implementation alone, unwind harness)
    fault_ev = None
    fault_bad = []
    if pid == "C12":
        from . import unwind_check
        import unwind_gen
        fes = unwind_check.fault_event_histories(tier, seed)
        for kind, h, line in fes:
            v = unwind_check.fault_event_violation(h, line)
            if v:
                fault_bad.append((v, h, line))
        fault_ev = dict(histories=len(fes), with_an_armed_destructor_fault=sum(1 for k, _, _ in fes if k == "fault"),
                        disagreements=len(fault_bad),
                        what="tracked storages, destroying operations with a component destructor armed to panic at "
                             "every position: the events read afterwards replay to the mask the storage shows")

    rc = 0
    for cls, r in known_hits.items():
        print("KNOWN-FINDING: property=%s %s" % (pid, known_cls[(pid, cls)]["text"]))
    replay = None
    if fault_bad and not violations:
        v, h, line = min(fault_bad, key=lambda t: len(t[1]))
        replay = common.write_replay(pid, dict(property=pid, domain="unwind-events", history=unwind_gen.pretty(h),
                                               encoded=unwind_gen.encode(h), transcript=line, what=v,
                                               replay_cmd="./sv replay <this file>"))
        print("VIOLATION property=%s replay=%s" % (pid, replay))
        rc = 1
    elif mask_bad and not violations:
        b = min(mask_bad, key=lambda r: len(r["case"]))
        replay = common.write_replay(pid, dict(property=pid, domain="hibit", case=b["case"],
                                               history=hibit_gen.pretty(b["case"]), impl=b["impl"], model=b["model"],
                                               what="the layered bit set behaves differently from its model "
                                                    "(layers / membership / iteration order / leaves of a split tree)",
                                               replay_cmd="./sv replay <this file>"))
        print("VIOLATION property=%s replay=%s" % (pid, replay))
        rc = 1
    elif violations:
        desc, r = violations[0]
        dom = r.get("domain", "world")
        small = shrink_world(pid, r["hist"], domain=dom)
        rs = run_world([small], fixed=True, domain=dom)[0]
        if world_violation(pid, rs) is None:
            rs = r
        desc = world_violation(pid, rs) or desc
        replay = common.write_replay(pid, dict(property=pid, domain="world", what=desc, **summarize(rs),
                                               replay_cmd="./sv replay <this file>"))
        print("VIOLATION property=%s replay=%s" % (pid, replay))
        rc = 1
    elif proof["failures"]:
        replay = common.write_replay(pid, dict(property=pid, domain="world",
                                               what="proof obligation no longer checks",
                                               failing=proof["failures"], search=search_note))
        print("VIOLATION property=%s replay=%s no-failing-input-found" % (pid, replay))
        rc = 1
    elif diverged and p["required"] == "faithful":
        r = diverged[0]
        replay = common.write_replay(pid, dict(property=pid, domain="world",
                                               what="correspondence corr:world/faithful no longer holds",
                                               search=search_note, **summarize(r)))
        print("VIOLATION property=%s replay=%s no-failing-input-found" % (pid, replay))
        rc = 1

    samples = [summarize(r) for r in results[:1] + results[len(results) // 2: len(results) // 2 + 1] + results[-1:]]
    ev = dict(
        property_id=pid, tier=tier, seed=seed, level="proof",
        coverage=dict(
            obligations=proof["obligations"] + 2, discharged=proof["discharged"] + (0 if diverged else 1) + (
                1 if all(r["acc_code"] == 0 or world_violation(pid, r) is None for r in results) and not violations else 0),
            checker_cmd="make -C coq theories/%s.vo (coqc 8.16.1, full .vo) + Print Assumptions + ./sv check %s" % (
                p["module"].replace(".", "/"), pid),
            trusted_base=TRUSTED_COMMON,
            theorems=proof["theorems"], axioms=proof["axioms"], proof_failures=proof["failures"],
            correspondence=dict(required="corr:world/" + p["required"],
                                faithful_equal=len(results) - len(diverged) - sum(1 for r in results if not r["eq"] and r not in diverged),
                                faithful_diverged=sum(1 for r in results if not r["eq"]),
                                spec_accepted=sum(1 for r in results if r["acc_code"] == 0),
                                spec_rejected=sum(1 for r in results if r["acc_code"] != 0)),
            faithful_model_diverged=bool(diverged),
            evaluations=len(results), distinct_nontrivial=len(nontriv), distinct=len(distinct),
            rule=(("histories: corpus of minimised failures + the structured generators named under `generator` (with "
                   "their counts), each history executed on the real World built from /repo and on the extracted model"
                   if pid in STORE_PROPS else
                   "histories: corpus + all well-formed histories over the reduced alphabet up to the stated length "
                   "+ structured random + planted failing batches (+ long churn for C17), each executed on the real "
                   "World and on the extracted model") + "; non-trivial = " + p["nontrivial"]),
            generator=dict(gstats), op_histogram=dict(ophist), error_histogram=dict(errkinds),
            mask_layer_tie=mask_tie, events_under_destructor_faults=fault_ev,
            samples=samples, exhaustive=False, search=search_note,
            known_findings=[known_cls[(pid, c)]["text"] for c in known_hits],
        ),
        assumptions=["generations < 2^31 and indices < 2^24 (histories here are far shorter)",
                     "handles passed to the world were returned by it (the harness never forges handles)"],
        wall_s=round(time.time() - t0, 2), violations=len(violations) + len(mask_bad) + len(fault_bad),
    )
    common.write_evidence(pid, ev)
    common.cleanup_run_dir()
    return rc


def run_check(pid, tier, seed):
    if pid not in PROPS:
        print("property %s is not claimed (see MANIFEST.json not_applicable)" % pid)
        return 2
    t0 = time.time()
    try:
        return run_check_inner(pid, tier, seed)
    except common.HarnessBuildError as e:
        # the correspondence cannot be checked at all: the property is no longer shown to hold for this tree
        text = str(e)
        errs = [l for l in text.splitlines() if l.startswith("error")][:12]
        path = common.write_replay(pid, {
            "property": pid, "broken": "correspondence",
            "what": "the harness that drives the implementation through its public API no longer builds against the "
                    "tree, so the correspondence between the model and the code cannot be checked (correspondence: "
                    "%s); no failing input could be searched for" % PROPS[pid].get("required", PROPS[pid]["domain"]),
            "compiler_errors": errs, "compiler_output_tail": text[-3000:]})
        common.write_evidence(pid, {
            "property_id": pid, "tier": tier, "seed": seed, "level": "proof", "wall_s": round(time.time() - t0, 1),
            "coverage": {"evaluations": 0, "distinct_nontrivial": 0, "obligations": len(PROPS[pid].get("theorems", [])),
                         "discharged": 0, "samples": [],
                         "rule": "the harness did not build against the tree; nothing was explored"},
            "violations": 1})
        print("harness build failed against %s:" % common.REPO)
        for l in errs:
            print("   " + l)
        print("VIOLATION property=%s replay=%s no-failing-input-found" % (pid, path))
        return 1


def run_check_inner(pid, tier, seed):
    dom = PROPS[pid]["domain"]
    if dom == "world":
        return check_world(pid, tier, seed)
    if dom == "determinism":
        from . import determinism_check
        return determinism_check.check_determinism(pid, tier, seed)
    if dom == "derive":
        from . import derive_check
        return derive_check.check_derive(pid, tier, seed)
    if dom == "dispatch":
        from . import dispatch_check
        return dispatch_check.check_dispatch(pid, tier, seed)
    if dom == "conc":
        from . import conc_check
        return conc_check.check_conc(pid, tier, seed, PROPS, proof_obligations, TRUSTED_COMMON)
    if dom == "saveload":
        from . import saveload_check      # imported here: saveload_check imports this module
        return saveload_check.check_saveload(pid, tier, seed)
    if dom == "unwind":
        from . import unwind_check
        return unwind_check.check_unwind(pid, tier, seed)
    raise SystemExit("unknown domain")


def replay(path):
    obj = json.load(open(path))
    pid = obj["property"]
    if obj.get("domain") == "determinism":
        from . import determinism_check
        return determinism_check.replay_determinism(obj)
    if obj.get("domain") == "derive":
        from . import derive_check
        return derive_check.replay(obj)
    if obj.get("domain") == "dispatch":
        from . import dispatch_check
        return dispatch_check.replay(obj, path)
    if obj.get("domain") == "conc":
        from . import conc_check
        return conc_check.replay_conc(path, obj)
    if obj.get("domain") == "saveload":
        from . import saveload_check
        return saveload_check.replay_saveload(obj, path)
    if obj.get("domain") == "unwind":
        from . import unwind_check
        return unwind_check.replay(obj, path)
    if obj.get("domain") == "unwind-events":
        from . import unwind_check
        import unwind_gen
        h = unwind_gen.decode(obj["encoded"])
        line = unwind_check.run_harness(common.build_harness(False), [h])[0]
        v = unwind_check.fault_event_violation(h, line)
        print(json.dumps(dict(history=unwind_gen.pretty(h), transcript=line, violation=v), indent=1))
        common.cleanup_run_dir()
        if v:
            print("VIOLATION property=%s replay=%s" % (pid, path))
            return 1
        print("no violation on this history")
        return 0
    if obj.get("domain") == "unwind-lazy":
        from . import unwind_check
        import unwind_gen
        h = unwind_gen.decode(obj["encoded"])
        expect = [(e[0], (e[1], e[2]), e[3]) for e in obj["expect"]]
        line = unwind_check.run_harness(common.build_harness(False), [h])[0]
        v = unwind_check.lazy_after_fault_violation(h, expect, line)
        print(json.dumps(dict(history=unwind_check.pretty_lazy(h), transcript=line, violation=v), indent=1))
        common.cleanup_run_dir()
        if v:
            print("VIOLATION property=%s replay=%s" % (pid, path))
            return 1
        print("no violation on this history")
        return 0
    if obj.get("domain") == "hibit":
        from . import hibit_check
        r = hibit_check.run_cases([obj["case"]])[0]
        print(json.dumps(r, indent=1))
        common.cleanup_run_dir()
        if not r["equal"]:
            print("VIOLATION property=%s replay=%s" % (pid, path))
            return 1
        print("no violation on this case")
        return 0
    if "encoded" not in obj:
        print(json.dumps(obj, indent=1))
        return 1
    h = wg.decode(obj["encoded"])
    r = run_world([h], fixed=True, domain=obj.get("harness_domain", "world"))[0]
    v = world_violation(pid, r)
    print(json.dumps(summarize(r), indent=1))
    common.cleanup_run_dir()
    if v:
        print("VIOLATION property=%s replay=%s" % (pid, path))
        return 1
    print("no violation on this history")
    return 0
