"""Per-property checks: proof obligations + correspondence + decision + evidence."""
import collections
import hashlib
import json
import os
import random
import subprocess
import sys
import time

from . import common
from .common import ROOT, log

import world_gen as wg

# ------------------------------------------------------------------ property table

TRUSTED_COMMON = [
    "Coq 8.16.1 kernel (coqc, full .vo build; coqchk in the thorough tier); no native_compute",
    "axioms: none (every theorem: Closed under the global context)",
    "extraction: ExtrOcamlBasic directives only (bool, option, unit, list, prod, sumbool, sumor, andb, orb)",
    "hand-written glue: ocaml/driver.ml, lib/svlib/*.py, gen/*.py, harness/src/*.rs",
    "modelled not verified: the Rust sources themselves (tied by the correspondence check on the inputs explored); "
    "hibitset bit sets as finite sets with ascending iteration; shred World/Fetch as plain ownership",
]

PROPS = {
    "C01": dict(
        domain="world", module="Props.C01",
        theorems=["C01_handles_unique", "C01_one_per_index", "C01_faithful_refines_spec", "C01_faithful_never_stuck"],
        required="spec",
        nontrivial="history reuses an index (a returned generation > 1) and contains a deferred operation",
    ),
    "C02": dict(
        domain="world", module="Props.C02",
        theorems=["C02_alive_on_return", "C02_dead_forever", "C02_failed_delete_changes_nothing",
                  "C02_batch_stops_at_first_dead", "C02_join_is_alive_set", "C02_join_sorted",
                  "C02_faithful_refines_spec"],
        required="spec",
        nontrivial="history contains a deletion and at least one probe reporting a dead handle",
    ),
    "C17": dict(
        domain="world", module="Props.C17",
        theorems=["C17_index_bounded", "C17_faithful_refines_spec", "C17_refuted_unfixed"],
        required="spec",
        nontrivial="history reuses an index or contains a failing batch deletion",
    ),
    "C14": dict(
        domain="saveload", module="Props.C14",
        theorems=["C14_serialize_image", "C14_serialize_panics_only_on_dangling", "C14_round_trip", "C14_bijection",
                  "C14_entity_count", "C14_serialize_data_spec", "C14_recursive_closure", "C14_recursive_round_trip",
                  "C14_recursive_fuel_enough"],
        required="faithful",
        nontrivial="history contains a round trip into an empty world whose data has at least two records and at "
                   "least one reference slot",
    ),
    "C15": dict(
        domain="saveload", module="Props.C15",
        theorems=["C15_history_invariant", "C15_invariant_empty", "C15_invariant_meaning", "C15_ids_unique",
                  "C15_mapping_agrees", "C15_counter_above", "C15_mark_existing", "C15_mark_fresh", "C15_load_merges",
                  "C15_load_components", "C15_load_removes_absent", "C15_load_untouched", "C15_repeated_load",
                  "C15_stale_not_trusted", "C15_alloc_maintain_exact", "C15_nonfresh_id_refuted",
                  "C15_u64_wrap_refuted"],
        required="faithful",
        nontrivial="history contains a load into a world that already holds one of the data's marker ids and that "
                   "also creates an entity, or a Mark of an already marked entity",
    ),
}

# ------------------------------------------------------------------ known findings


def load_known_findings():
    path = os.path.join(ROOT, "KNOWN_FINDINGS")
    found, fixed = [], []
    if os.path.exists(path):
        for line in open(path):
            line = line.strip()
            if not line or line.startswith("#"):
                continue
            kind, _, rest = line.partition(":")
            fields = dict(t.split("=", 1) for t in rest.split() if "=" in t)
            entry = dict(kind=kind.strip(), property=fields.get("property"), cls=fields.get("class"), text=rest.strip())
            (found if kind.strip() == "finding" else fixed).append(entry)
    return found, fixed


def finding_class(pid, res):
    """name of the specific class of failing history a violation belongs to (or None)"""
    if pid == "C17" and res["acc_code"] == 3:
        # a fresh index taken while a free cell exists, after a batch deletion failed part-way
        pos = res["acc_pos"]
        for k, (code, p) in enumerate(res["hist"][:pos]):
            if code == wg.DM and k < len(res["impl"]):
                o = res["impl"][k]
                if len(o) >= 3 and o[0] == 2 and o[1] == 1 and o[2] >= 1:
                    return "failing-batch-leak"
    return None


# ------------------------------------------------------------------ proof obligations

def proof_obligations(pid, tier):
    info = dict(theorems=[], discharged=0, obligations=0, failures=[], axioms={})
    p = PROPS[pid]
    thms = p["theorems"]
    info["obligations"] = len(thms)
    bad = common.hygiene()
    if bad:
        info["failures"].append("forbidden vernacular: " + "; ".join(bad[:5]))
    mod_path = "theories/" + p["module"].replace(".", "/")
    ok, out = common.build_coq([mod_path + ".vo", mod_path + "_pins.vo", "theories/Extract/Extract.vo"])
    if not ok:
        tail = out[-3000:]
        info["failures"].append("coq build failed: " + tail)
        return info
    try:
        pa = common.print_assumptions(p["module"], thms)
    except RuntimeError as e:
        info["failures"].append(str(e)[-2000:])
        return info
    for t in thms:
        ax = pa.get(t)
        if ax is None:
            info["failures"].append("theorem %s not found" % t)
            continue
        extra = [a for a in ax if a not in common.ALLOWED_AXIOMS]
        info["axioms"][t] = ax
        if extra:
            info["failures"].append("theorem %s depends on axioms %s" % (t, extra))
        else:
            info["discharged"] += 1
            info["theorems"].append(t)
    if tier == "thorough" and not info["failures"]:
        ok, out = common.coqchk(["SV." + p["module"]])
        info["coqchk"] = "ok" if ok else out[-1500:]
        if not ok:
            info["failures"].append("coqchk failed")
    return info


# ------------------------------------------------------------------ world domain execution

def run_world(hists, fixed=True, release=False):
    """execute histories on the implementation and on the model; returns result dicts"""
    exe = common.build_harness(release)
    drv = common.build_ocaml()
    d = common.run_dir()
    hf = os.path.join(d, "hist.txt")
    tf = os.path.join(d, "impl.txt")
    with open(hf, "w") as f:
        for h in hists:
            f.write(wg.encode(h) + "\n")
    impl_lines = run_harness(exe, "world", hf, hists)
    with open(tf, "w") as f:
        f.write("\n".join(impl_lines) + "\n")
    p = subprocess.run([drv, "world", "1" if fixed else "0", hf, tf], stdout=subprocess.PIPE, text=True, timeout=7200)
    if p.returncode != 0:
        raise RuntimeError("model driver failed")
    lines = p.stdout.split("\n")
    res = []
    for k, h in enumerate(hists):
        model = parse_tr(lines[2 * k])
        v = lines[2 * k + 1].split()
        assert v[0] == "V"
        v = [int(x) for x in v[1:]]
        res.append(dict(hist=h, impl=parse_tr(impl_lines[k]), model=model, eq=v[0], complete=v[1],
                        acc_pos=v[2], acc_code=v[3], c01d=v[4], c02d=v[5]))
    return res


def parse_tr(line):
    line = line.strip()
    if not line:
        return []
    return [[int(x) for x in part.split()] for part in line.split("|")]


def run_harness(exe, domain, hf, hists):
    p = subprocess.run([exe, domain, hf], stdout=subprocess.PIPE, text=True, timeout=7200)
    if p.returncode == 0:
        lines = p.stdout.rstrip("\n").split("\n") if hists else []
        if len(lines) == len(hists):
            return lines
    # the process died (possible after a memory-safety mutation): one history at a time
    log("harness crashed (rc=%s); re-running one history at a time" % p.returncode)
    out = []
    d = common.run_dir()
    one = os.path.join(d, "one.txt")
    for h in hists:
        with open(one, "w") as f:
            f.write(wg.encode(h) + "\n")
        q = subprocess.run([exe, domain, one], stdout=subprocess.PIPE, text=True, timeout=600)
        if q.returncode == 0 and q.stdout.strip():
            out.append(q.stdout.strip().split("\n")[0])
        else:
            out.append("99")      # crash marker: undecodable, so `complete` is false
    return out


# ------------------------------------------------------------------ classification (world domain)

CREATION = (wg.C, wg.CX, wg.CI, wg.EC, wg.ECI, wg.EB, wg.LC)


def world_violation(pid, r):
    """returns a short description if result r shows property pid violated, else None"""
    if not r["complete"]:
        return "implementation panicked or produced an undecodable output (the model proves no step panics)"
    pos, code = r["acc_pos"], r["acc_code"]
    op = r["hist"][pos][0] if 0 <= pos < len(r["hist"]) else None
    if pid == "C01":
        if not r["c01d"]:
            return "a handle was returned twice, or two entities reported alive share an index"
        if code == 2:
            return "a creation returned an index whose entity is not dead (op %d)" % pos
        if code == 1 and op in CREATION:
            return "a creation returned a generation the lifecycle specification forbids (op %d)" % pos
    if pid == "C02":
        if not r["c02d"]:
            return "a handle reported dead was reported alive again"
        if code == 1 and op not in CREATION:
            return "aliveness / deletion result / entities join differs from the create-delete-maintain timeline (op %d: %s)" % (
                pos, wg.NAMES.get(op, op))
    if pid == "C17":
        if code == 3:
            return "a never-used index was taken while a dead entity's index was free (op %d)" % pos
    return None


def nontrivial_world(pid, r):
    reuse = any(o and o[0] == 1 and any(g > 1 for g in o[3::2]) for o in r["impl"])
    codes = set(c for c, _ in r["hist"])
    if pid == "C01":
        return reuse and bool(codes & {wg.CX, wg.EC, wg.ECI, wg.EB, wg.LC, wg.ED})
    if pid == "C02":
        has_del = bool(codes & {wg.D, wg.DM, wg.ED, wg.DA, wg.CX})
        dead_probe = any(o and o[0] == 5 and 0 in o[2:] for o in r["impl"])
        return has_del and dead_probe
    if pid == "C17":
        failing = any(o and o[0] == 2 and o[1] == 1 for o in r["impl"])
        return reuse or failing
    return True


def gen_world(pid, tier, seed, scale=1):
    rng = random.Random(seed * 1000003 + sum(map(ord, pid)))
    hists = []
    stats = collections.Counter()
    # 1. corpus of minimised failures first
    cdir = os.path.join(ROOT, "gen", "corpus", pid)
    if os.path.isdir(cdir):
        for f in sorted(os.listdir(cdir)):
            for line in open(os.path.join(cdir, f)):
                if line.strip():
                    hists.append(wg.decode(line))
                    stats["corpus"] += 1
    # 2. bounded-exhaustive enumeration (validates the model against the code)
    depth = 4 if tier == "quick" else 5
    for h in wg.enumerate_histories(depth):
        hists.append(wg.with_probes(h))
        stats["enumerated(len<=%d)" % depth] += 1
    # 3. structured random
    n_rand = (1500 if tier == "quick" else 12000) * scale
    for _ in range(n_rand):
        h = wg.random_history(rng, rng.randint(8, 60 if tier == "quick" else 160))
        hists.append(wg.with_probes(h, every=rng.choice([1, 1, 2, 5])))
        stats["random"] += 1
    for _ in range((300 if tier == "quick" else 3000) * scale):
        hists.append(wg.with_probes(wg.leak_pattern(rng)))
        stats["failing-batch patterns"] += 1
    if pid == "C17":
        for _ in range((6 if tier == "quick" else 40) * scale):
            n = rng.choice([300, 1000, 3000] if tier == "quick" else [1000, 10000, 30000])
            hists.append(wg.long_history(rng, n) + [(wg.JE, [])])
            stats["long churn"] += 1
    return hists, stats


def shrink_world(pid, hist, fixed=True):
    """delta debugging on the op list, keeping `world_violation(pid, .)`"""
    def fails(h):
        if not h:
            return False
        r = run_world([h], fixed)[0]
        return world_violation(pid, r) is not None

    cur = list(hist)
    n = 2
    budget = 120
    while len(cur) >= 2 and budget > 0:
        chunk = max(1, len(cur) // n)
        reduced = False
        for i in range(0, len(cur), chunk):
            cand = cur[:i] + cur[i + chunk:]
            budget -= 1
            if cand and fails(cand):
                cur, n, reduced = cand, max(n - 1, 2), True
                break
            if budget <= 0:
                break
        if not reduced:
            if chunk == 1:
                break
            n = min(n * 2, len(cur))
    return cur


def summarize(r):
    return dict(history=wg.pretty(r["hist"]), encoded=wg.encode(r["hist"]),
                impl=" | ".join(" ".join(map(str, o)) for o in r["impl"]),
                model=" | ".join(" ".join(map(str, o)) for o in r["model"]),
                faithful_equal=bool(r["eq"]), spec_accept=(r["acc_code"] == 0),
                spec_reject_pos=r["acc_pos"], spec_reject_code=r["acc_code"])


def check_world(pid, tier, seed):
    t0 = time.time()
    p = PROPS[pid]
    proof = proof_obligations(pid, tier)
    hists, gstats = gen_world(pid, tier, seed)
    results = run_world(hists, fixed=True)
    if tier == "thorough":
        # release build as well: no overflow checks / debug assertions
        rel = run_world(hists[: min(len(hists), 20000)], fixed=True, release=True)
        results = results + rel
    known, _fixed = load_known_findings()
    known_cls = {(k["property"], k["cls"]): k for k in known}
    violations, known_hits, diverged = [], collections.OrderedDict(), []
    ophist = collections.Counter()
    errkinds = collections.Counter()
    distinct = set()
    nontriv = set()
    for r in results:
        key = hashlib.sha1(wg.encode(r["hist"]).encode()).hexdigest()
        distinct.add(key)
        for c, _ in r["hist"]:
            ophist[wg.NAMES.get(c, str(c))] += 1
        for o in r["impl"]:
            if o and o[0] in (2, 3) and o[1] == 1:
                errkinds["wrong-generation(delete)" if o[0] == 2 else "wrong-generation(deferred delete)"] += 1
            if o and o[0] == 9:
                errkinds["panic"] += 1
        if nontrivial_world(pid, r):
            nontriv.add(key)
        v = world_violation(pid, r)
        if v:
            cls = finding_class(pid, r)
            if cls and (pid, cls) in known_cls:
                known_hits.setdefault(cls, r)
            else:
                violations.append((v, r))
        elif not r["eq"]:
            diverged.append(r)
    # expected buckets: a dead generator must not go unnoticed
    for need in ("Create", "DeleteMany", "EDelete", "Maintain", "ProbeAll", "ECreate"):
        if ophist[need] == 0:
            proof["failures"].append("generator bucket empty: " + need)

    search_note = None
    if (proof["failures"] or diverged) and not violations:
        # failing-input search: ten times the budget, seeds derived from the run seed
        extra, _ = gen_world(pid, "quick", seed + 7919, scale=10)
        for r in run_world(extra, fixed=True):
            v = world_violation(pid, r)
            if v and not ((pid, finding_class(pid, r)) in known_cls):
                violations.append((v, r))
                break
        search_note = "failing-input search over %d further histories: %s" % (
            len(extra), "found" if violations else "none found")

    rc = 0
    for cls, r in known_hits.items():
        print("KNOWN-FINDING: property=%s %s" % (pid, known_cls[(pid, cls)]["text"]))
    replay = None
    if violations:
        desc, r = violations[0]
        small = shrink_world(pid, r["hist"])
        rs = run_world([small], fixed=True)[0]
        if world_violation(pid, rs) is None:
            rs = r
        desc = world_violation(pid, rs) or desc
        replay = common.write_replay(pid, dict(property=pid, domain="world", what=desc, **summarize(rs),
                                               replay_cmd="./sv replay <this file>"))
        print("VIOLATION property=%s replay=%s" % (pid, replay))
        rc = 1
    elif proof["failures"]:
        replay = common.write_replay(pid, dict(property=pid, domain="world",
                                               what="proof obligation no longer checks",
                                               failing=proof["failures"], search=search_note))
        print("VIOLATION property=%s replay=%s no-failing-input-found" % (pid, replay))
        rc = 1
    elif diverged and p["required"] == "faithful":
        r = diverged[0]
        replay = common.write_replay(pid, dict(property=pid, domain="world",
                                               what="correspondence corr:world/faithful no longer holds",
                                               search=search_note, **summarize(r)))
        print("VIOLATION property=%s replay=%s no-failing-input-found" % (pid, replay))
        rc = 1

    samples = [summarize(r) for r in results[:1] + results[len(results) // 2: len(results) // 2 + 1] + results[-1:]]
    ev = dict(
        property_id=pid, tier=tier, seed=seed, level="proof",
        coverage=dict(
            obligations=proof["obligations"] + 2, discharged=proof["discharged"] + (0 if diverged else 1) + (
                1 if all(r["acc_code"] == 0 or world_violation(pid, r) is None for r in results) and not violations else 0),
            checker_cmd="make -C coq theories/%s.vo (coqc 8.16.1, full .vo) + Print Assumptions + ./sv check %s" % (
                p["module"].replace(".", "/"), pid),
            trusted_base=TRUSTED_COMMON,
            theorems=proof["theorems"], axioms=proof["axioms"], proof_failures=proof["failures"],
            correspondence=dict(required="corr:world/" + p["required"],
                                faithful_equal=len(results) - len(diverged) - sum(1 for r in results if not r["eq"] and r not in diverged),
                                faithful_diverged=sum(1 for r in results if not r["eq"]),
                                spec_accepted=sum(1 for r in results if r["acc_code"] == 0),
                                spec_rejected=sum(1 for r in results if r["acc_code"] != 0)),
            faithful_model_diverged=bool(diverged),
            evaluations=len(results), distinct_nontrivial=len(nontriv), distinct=len(distinct),
            rule="histories: corpus + all well-formed histories over the reduced alphabet up to the stated length "
                 "+ structured random + planted failing batches (+ long churn for C17), each executed on the real "
                 "World and on the extracted model; non-trivial = " + p["nontrivial"],
            generator=dict(gstats), op_histogram=dict(ophist), error_histogram=dict(errkinds),
            samples=samples, exhaustive=False, search=search_note,
            known_findings=[known_cls[(pid, c)]["text"] for c in known_hits],
        ),
        assumptions=["generations < 2^31 and indices < 2^24 (histories here are far shorter)",
                     "handles passed to the world were returned by it (the harness never forges handles)"],
        wall_s=round(time.time() - t0, 2), violations=len(violations),
    )
    common.write_evidence(pid, ev)
    common.cleanup_run_dir()
    return rc


def run_check(pid, tier, seed):
    if pid not in PROPS:
        print("property %s is not claimed (see MANIFEST.json not_applicable)" % pid)
        return 2
    dom = PROPS[pid]["domain"]
    if dom == "world":
        return check_world(pid, tier, seed)
    if dom == "saveload":
        from . import saveload_check      # imported here: saveload_check imports this module
        return saveload_check.check_saveload(pid, tier, seed)
    raise SystemExit("unknown domain")


def replay(path):
    obj = json.load(open(path))
    pid = obj["property"]
    if obj.get("domain") == "saveload":
        from . import saveload_check
        return saveload_check.replay_saveload(obj, path)
    if "encoded" not in obj:
        print(json.dumps(obj, indent=1))
        return 1
    h = wg.decode(obj["encoded"])
    r = run_world([h], fixed=True)[0]
    v = world_violation(pid, r)
    print(json.dumps(summarize(r), indent=1))
    common.cleanup_run_dir()
    if v:
        print("VIOLATION property=%s replay=%s" % (pid, path))
        return 1
    print("no violation on this history")
    return 0
