"""The `conc` domain check (property C10): proof obligations + lock-step
correspondence between the real code (yield hook) and the extracted
interleaving model + the property predicate c10_ok on the implementation's
transcripts + stress run on real threads + evidence."""
import collections
import hashlib
import json
import os
import random
import resource
import subprocess
import time

from . import common
from .common import ROOT, log

import conc_gen as cg

TRUSTED_CONC = [
    "the interleaving model is hand-written (coq/theories/Conc/AtomicLTS.v): one model step per code segment between "
    "two yield points of hooks/c10_yield.patch; tied to the code by lock-step differential execution on the schedules explored",
    "sequentially consistent interleavings only: Ordering::Relaxed reorderings and compare_exchange_weak spurious "
    "failures are not in the model (sampled only by the unhooked stress run on real threads)",
    "hibitset AtomicBitSet::add_atomic / contains and crossbeam SegQueue::push are each modelled as one atomic step",
    "the lock-step scheduler and the yield hook themselves (harness/src/conc.rs, specs::verif_sched): "
    "INC_BEFORE_LOAD and INC_AFTER_CAS are passed through because no shared access separates them from the "
    "neighbouring yield point",
]


# ------------------------------------------------------------------ execution

def _big_stack():
    """the extracted list functions are not tail recursive: lift the stack limit for the model driver"""
    try:
        resource.setrlimit(resource.RLIMIT_STACK, (resource.RLIM_INFINITY, resource.RLIM_INFINITY))
    except (ValueError, OSError):
        pass


def _write_lines(path, lines):
    with open(path, "w") as f:
        f.write("\n".join(lines))
        f.write("\n")


def enum_schedules(drv, requests):
    """requests: list of (setup, progs, full); returns one list of schedules per request,
    enumerated by the extracted Coq model"""
    if not requests:
        return []
    d = common.run_dir()
    path = os.path.join(d, "enum.txt")
    _write_lines(path, [cg.encode_case(s, p, [0] if full else []) for s, p, full in requests])
    p = subprocess.run([drv, "conc-enum", path], stdout=subprocess.PIPE, text=True, timeout=7200, preexec_fn=_big_stack)
    if p.returncode != 0:
        raise RuntimeError("model driver (conc-enum) failed")
    out = []
    for line in p.stdout.rstrip("\n").split("\n"):
        out.append([[int(x) for x in part.split()] for part in line.split("|")])
    assert len(out) == len(requests)
    return out


def _run_chunks(cmds, timeout, env=None):
    """run several processes concurrently (stdout to files, so that none blocks on a full pipe);
    returns their stdout line lists (None on failure)"""
    d = common.run_dir()
    procs = []
    for i, cmd in enumerate(cmds):
        path = os.path.join(d, "out_%d_%d_%d.txt" % (os.getpid(), int(time.time() * 1000) % 1000000, i))
        f = open(path, "w")
        procs.append((subprocess.Popen(cmd, stdout=f, stderr=subprocess.DEVNULL, preexec_fn=_big_stack,
                                       env=None if env is None else dict(os.environ, **env)), f, path))
    outs = []
    deadline = time.time() + timeout
    for p, f, path in procs:
        ok = True
        try:
            p.wait(timeout=max(1, deadline - time.time()))
        except subprocess.TimeoutExpired:
            p.kill()
            p.wait()
            ok = False
        f.close()
        if ok and p.returncode == 0:
            with open(path) as g:
                outs.append(g.read().rstrip("\n").split("\n"))
        else:
            outs.append(None)
        try:
            os.remove(path)
        except OSError:
            pass
    return outs


# cases on which the implementation did not return, over the whole check (enough of them and nothing more is narrowed)
HUNG = [0]


def run_conc(lines, nthreads_hint=3, release=False):
    """execute encoded cases on the implementation (lock step) and on the model.
    returns a list of dicts(case, impl, model, decoded, eq, ok, hyp)"""
    if not lines:
        return []
    exe = common.build_harness(release)
    drv = common.build_ocaml()
    d = common.run_dir()
    # each harness process keeps nthreads+1 cores busy (spin waiting)
    k = max(1, min(6, common.NCPU // (nthreads_hint + 1), (len(lines) + 1999) // 2000))
    size = (len(lines) + k - 1) // k
    chunks = [lines[i:i + size] for i in range(0, len(lines), size)]
    tag = "%d_%d" % (os.getpid(), int(time.time() * 1000) % 100000)
    cpaths = []
    for i, ch in enumerate(chunks):
        cp = os.path.join(d, "cases_%s_%d.txt" % (tag, i))
        _write_lines(cp, ch)
        cpaths.append(cp)
    # probe: exit code 3 = the sources lack the yield hook
    probe = os.path.join(d, "probe_%s.txt" % tag)
    _write_lines(probe, ["0 0 0 0 0"])
    q = subprocess.run([exe, "conc", probe], stdout=subprocess.PIPE, stderr=subprocess.PIPE, text=True, timeout=120)
    if q.returncode == 3:
        raise RuntimeError("the specs sources lack the C10 yield hook (verif_sched): apply hooks/c10_yield.patch")
    impl_chunks = _run_chunks([[exe, "conc", cp] for cp in cpaths], timeout=3600,
                              env={"SV_WATCHDOG_SECS": "45"} if HUNG[0] >= 4 else None)
    impl = []
    singles = [0]
    hung = HUNG

    def one_by_one(cases):
        out = []
        one = os.path.join(d, "one_%s.txt" % tag)
        for c in cases:
            if singles[0] >= 1500 or hung[0] >= 4:
                out.append("98")          # budget exhausted (or enough hanging cases to report): counted as a crash
                continue
            singles[0] += 1
            _write_lines(one, [c])
            try:
                q = subprocess.run([exe, "conc", one], stdout=subprocess.PIPE, stderr=subprocess.DEVNULL, text=True,
                                   timeout=20)
                out.append(q.stdout.strip().split("\n")[0] if q.returncode == 0 and q.stdout.strip() else "98")
            except subprocess.TimeoutExpired:
                hung[0] += 1
                out.append("98")
        return out

    for ch, cp, out in zip(chunks, cpaths, impl_chunks):
        if out is None or len(out) != len(ch):
            # the process died or hung (possible under a mutation): narrow down, then one case at a time
            log("harness failed on a chunk; narrowing down")
            out = []
            sub = [ch[i:i + 500] for i in range(0, len(ch), 500)]
            spaths = []
            for i, sc in enumerate(sub):
                sp = os.path.join(d, "sub_%s_%d.txt" % (tag, i))
                _write_lines(sp, sc)
                spaths.append(sp)
            for g in range(0, len(sub), 4):
                if hung[0] >= 4:
                    # enough hanging cases to report and to shrink from: the rest counts as not run
                    for sc in sub[g:g + 4]:
                        out.extend(["98"] * len(sc))
                    continue
                souts = _run_chunks([[exe, "conc", sp] for sp in spaths[g:g + 4]], timeout=600,
                                    env={"SV_WATCHDOG_SECS": "45"})
                for sc, so in zip(sub[g:g + 4], souts):
                    out.extend(so if so is not None and len(so) == len(sc) else one_by_one(sc))
            for sp in spaths:
                try:
                    os.remove(sp)
                except OSError:
                    pass
        impl.extend(out)
    ipaths = []
    for i, ch in enumerate(chunks):
        ip = os.path.join(d, "impl_%s_%d.txt" % (tag, i))
        _write_lines(ip, impl[i * size:i * size + len(ch)])
        ipaths.append(ip)
    model_chunks = _run_chunks([[drv, "conc", cp, ip] for cp, ip in zip(cpaths, ipaths)], timeout=3600)
    res = []
    pos = 0
    for ch, out in zip(chunks, model_chunks):
        if out is None or len(out) != 2 * len(ch):
            raise RuntimeError("model driver (conc) failed")
        for j, c in enumerate(ch):
            v = out[2 * j + 1].split()
            assert v[0] == "V"
            v = [int(x) for x in v[1:]]
            res.append(dict(case=c, impl=impl[pos + j], model=out[2 * j], decoded=v[0], eq=v[1], ok=v[2], hyp=v[3]))
        pos += len(ch)
    for p in cpaths + ipaths:
        try:
            os.remove(p)
        except OSError:
            pass
    return res


def run_stress(params, release=True):
    """params: list of (threads, ops, rounds, nfree, seed); returns list of int lists"""
    exe = common.build_harness(release)
    d = common.run_dir()
    path = os.path.join(d, "stress.txt")
    _write_lines(path, [" ".join(str(x) for x in p) for p in params])
    p = subprocess.run([exe, "conc-stress", path], stdout=subprocess.PIPE, stderr=subprocess.DEVNULL, text=True,
                       timeout=3600)
    if p.returncode != 0:
        return [[0, 9, -1] for _ in params]
    return [[int(x) for x in line.split()] for line in p.stdout.rstrip("\n").split("\n")]


# ------------------------------------------------------------------ classification

def conc_violation(r):
    """a description if the implementation's transcript violates the property, else None"""
    if not r["decoded"]:
        return "the implementation panicked, crashed or hung, or produced an undecodable transcript " \
               "(the model proves that no step panics)"
    if not r["ok"]:
        return "c10_ok is false on the implementation's transcript: " + explain(r)
    return None


def parse_tr(line):
    return [[int(x) for x in part.split()] for part in line.split("|") if part.strip()]


def thread_outputs(tr):
    """per thread: list of decoded outputs (tag, ...)"""
    res = []
    for l in tr:
        if not l or l[0] != 20:
            continue
        xs, i, outs = l[2:], 0, []
        while i < len(xs):
            t = xs[i]
            if t == 1:
                outs.append(("handle", (xs[i + 1], xs[i + 2])))
                i += 3
            elif t == 2:
                if xs[i + 3] == 0:
                    outs.append(("kill", (xs[i + 1], xs[i + 2]), None))
                    i += 4
                else:
                    outs.append(("kill", (xs[i + 1], xs[i + 2]), xs[i + 4]))
                    i += 5
            elif t == 3:
                outs.append(("alive", (xs[i + 1], xs[i + 2]), xs[i + 3]))
                i += 4
            elif t == 4:
                outs.append(("push", xs[i + 1]))
                i += 2
            elif t == 8:
                outs.append(("skip",))
                i += 1
            else:
                outs.append(("panic",))
                break
        res.append(outs)
    return res


def explain(r):
    """which clause of the predicate fails (for the replay file; the verdict itself is the extracted c10_ok)"""
    try:
        outs = thread_outputs(parse_tr(r["impl"]))
        handles = [o[1] for t in outs for o in t if o[0] == "handle"]
        if len(set(handles)) != len(handles):
            return "a handle was returned twice: %s" % (sorted(h for h in set(handles) if handles.count(h) > 1),)
        for k, t in enumerate(outs):
            own = [o[1] for o in t if o[0] == "handle"]
            for o in t:
                if o[0] == "panic":
                    return "thread %d panicked" % k
                if o[0] == "alive" and o[1] in own and not o[2]:
                    return "thread %d: its own handle %s reported dead" % (k, o[1])
                if o[0] == "kill" and o[1] in own and o[2] is not None:
                    return "thread %d: deletion of its own live handle %s failed" % (k, o[1])
        return "the alive set after maintain is not initial + created - requested, or a queued action was lost / duplicated / reordered"
    except Exception:
        return "undecodable"


def min_steps(outs):
    n = 0
    for t in outs:
        for o in t:
            n += 5 if o[0] == "handle" else 2 if (o[0] == "kill" and o[2] is None) else 1
    return n


def summarize(r):
    setup, progs, sched = cg.decode_case(r["case"])
    return dict(case=cg.pretty_case(setup, progs, sched), encoded=r["case"], impl=r["impl"], model=r["model"],
                faithful_equal=bool(r["eq"]), c10_ok=bool(r["ok"]), decoded=bool(r["decoded"]))


# ------------------------------------------------------------------ generation

def _enum_batch(drv, reqs):
    """reqs: (setup, progs, full, kind) -> (lines, meta, stats)"""
    stats = collections.Counter()
    lines, meta = [], []
    scheds = enum_schedules(drv, [(s, p, f) for s, p, f, _ in reqs])
    for (setup, progs, full, kind), ss in zip(reqs, scheds):
        for sch in ss:
            lines.append(cg.encode_case(setup, progs, sch))
            meta.append((kind, True))
        stats[kind] += len(ss)
        stats["program tuples"] += 1
    return lines, meta, stats


def n_creates(progs):
    return sum(1 for p in progs for o in p if o[0] == 1)


def gen_conc(tier, seed, drv):
    """yields batches (lines, meta, stats); meta[i] = (kind, schedule is exact: complete and without no-op entries)"""
    rng = random.Random(seed * 1000003 + 10)
    setups = cg.SETUPS + [cg.SETUP_PENDING]
    # 0. corpus of minimised failures
    cdir = os.path.join(ROOT, "gen", "corpus", "C10")
    if os.path.isdir(cdir):
        lines = [l.strip() for f in sorted(os.listdir(cdir)) for l in open(os.path.join(cdir, f)) if l.strip()]
        if lines:
            yield lines, [("corpus", False)] * len(lines), collections.Counter(corpus=len(lines))
    # 1. exhaustive: every schedule (enumerated by the model itself)
    quick = tier == "quick"
    for setup in setups:
        reqs = []
        # every atomic step a scheduling point, two threads, one op each: nothing reduced
        for progs in cg.program_tuples(setup, 2, 1, False):
            reqs.append((setup, progs, True, "all schedules 2x1 (every step)"))
        for (nt, no) in [(2, 2), (3, 1)]:
            for progs in cg.program_tuples(setup, nt, no, quick):
                reqs.append((setup, progs, False, "all schedules %dx%d" % (nt, no)))
        if quick:
            yield _enum_batch(drv, reqs)
        else:
            for k in range(0, len(reqs), 300):
                yield _enum_batch(drv, reqs[k:k + 300])
    if not quick:
        # 3 threads x 2 ops: exhaustive for the tuples with at most one creation (a tuple with two has ~10^5
        # schedules, with four > 10^6); the others under random schedules
        for setup in [cg.SETUPS[1], cg.SETUP_PENDING]:
            reqs = [(setup, progs, False, "all schedules 3x2 (at most one creation)")
                    for progs in cg.program_tuples(setup, 3, 2, True) if n_creates(progs) <= 1]
            for k in range(0, len(reqs), 100):
                yield _enum_batch(drv, reqs[k:k + 100])
        lines = []
        for setup in setups:
            for progs in cg.program_tuples(setup, 3, 2, True):
                if n_creates(progs) >= 2:
                    for _ in range(40):
                        lines.append(cg.encode_case(setup, progs, cg.random_schedule(rng, progs)))
        for k in range(0, len(lines), 200000):
            ch = lines[k:k + 200000]
            yield ch, [("3x2 tuples with two or more creations, random schedules", False)] * len(ch), \
                collections.Counter({"3x2 tuples with two or more creations, random schedules": len(ch)})
    # 2. random programs and schedules
    n_rand = 3000 if quick else 60000
    max_t, max_o = (4, 4) if quick else (8, 6)
    lines = []
    for _ in range(n_rand):
        setup = rng.choice(setups + [(rng.randint(0, 6), 0, 1)])
        nc = setup[0]
        setup = (nc, rng.randint(0, nc), rng.choice([0, 1, 1, 2])) if rng.random() < 0.5 else setup
        progs = cg.random_programs(rng, setup, rng.randint(2, max_t), max_o)
        lines.append(cg.encode_case(setup, progs, cg.random_schedule(rng, progs)))
    yield lines, [("random", False)] * len(lines), collections.Counter({"random programs and schedules": len(lines)})


def shrink_case(line, budget=60):
    """greedy shrinking of a violating case: shorter schedule (the executors drain), fewer ops, fewer threads"""
    def fails(l):
        r = run_conc([l])[0]
        return conc_violation(r) is not None

    setup, progs, sched = cg.decode_case(line)
    cur = (setup, progs, sched)

    def enc(c):
        return cg.encode_case(*c)

    changed = True
    while changed and budget > 0:
        changed = False
        setup, progs, sched = cur
        cands = []
        for t in range(len(progs)):
            if len(progs) > 1:
                cands.append((setup, progs[:t] + progs[t + 1:], [x - (1 if x > t else 0) for x in sched if x != t]))
            for i in range(len(progs[t])):
                cands.append((setup, progs[:t] + [progs[t][:i] + progs[t][i + 1:]] + progs[t + 1:], sched))
        if len(sched) > 0:
            cands.append((setup, progs, sched[:len(sched) // 2]))
            cands.append((setup, progs, sched[:-1]))
        for c in cands:
            budget -= 1
            if budget <= 0:
                break
            try:
                if fails(enc(c)):
                    cur, changed = c, True
                    break
            except Exception:
                continue
    return enc(cur)


# ------------------------------------------------------------------ the check

def check_conc(pid, tier, seed, props, proof_obligations, trusted_common):
    t0 = time.time()
    p = props[pid]
    proof = proof_obligations(pid, tier)
    hooks_missing = False
    violations, diverged, badhyp = [], [], 0
    n_eval = n_eq = n_ok = n_distinct = n_nontriv = 0
    seen_random = set()
    hist = collections.Counter()
    gstats = collections.Counter()
    samples_r = []
    release_lines = []

    def absorb(results, meta, rerun=False):
        nonlocal badhyp, n_eval, n_eq, n_ok, n_distinct, n_nontriv
        for r, (kind, exact) in zip(results, meta):
            n_eval += 1
            n_eq += 1 if r["eq"] else 0
            n_ok += 1 if r["ok"] else 0
            if rerun:
                pass                  # the same cases on another build: not counted as distinct
            elif exact:
                n_distinct += 1       # enumerated cases are pairwise distinct by construction
            else:
                h = hashlib.sha1(r["case"].encode()).digest()[:8]
                if h not in seen_random:
                    seen_random.add(h)
                    n_distinct += 1
            if not r["hyp"]:
                badhyp += 1
            v = conc_violation(r)
            if v:
                if len(violations) < 50:
                    violations.append((v, r))
            elif not r["eq"]:
                if len(diverged) < 50:
                    diverged.append(r)
            if r["decoded"]:
                outs = thread_outputs(parse_tr(r["impl"]))
                for t in outs:
                    for o in t:
                        hist[o[0] + ("-err" if o[0] == "kill" and o[2] is not None else "")] += 1
                if exact and not rerun:
                    _, _, sched = cg.decode_case(r["case"])
                    if len(sched) > min_steps(outs):
                        n_nontriv += 1
        if results:
            samples_r.append(results[len(results) // 2])

    try:
        common.build_harness(False)
        drv = common.build_ocaml()
        first = True
        for lines, meta, st in gen_conc(tier, seed, drv):
            gstats.update(st)
            results = run_conc(lines, nthreads_hint=3)
            if first and results and all(r["impl"].startswith("98") for r in results[:5]):
                hooks_missing = True
            first = False
            absorb(results, meta)
            if tier == "thorough" and len(release_lines) < 300000:
                step = max(1, len(lines) // 20000)
                release_lines += list(zip(lines[::step], meta[::step]))
            log("  %d cases so far (%.0fs)" % (n_eval, time.time() - t0))
            if len(violations) >= 50:
                break
        if tier == "thorough" and not violations:
            # release build as well (no overflow checks / debug assertions)
            rl = [l for l, _ in release_lines]
            absorb(run_conc(rl, nthreads_hint=3, release=True), [m for _, m in release_lines], rerun=True)
            gstats["re-run on the release build"] = len(rl)
    except RuntimeError as e:
        proof["failures"].append("build/execution failed: " + str(e)[-1500:])
        if "verif_sched" in str(e) or "hook" in str(e):
            hooks_missing = True
    results_seen = n_eval > 0

    if badhyp:
        proof["failures"].append("%d generated cases do not satisfy the hypothesis of the theorems (hinit_okb)" % badhyp)
    for need in ("handle", "kill", "kill-err", "alive", "push"):
        if results_seen and not violations and hist[need] == 0:
            proof["failures"].append("generator bucket empty: " + need)

    # stress run on real threads (no scheduler): the only sampling of non-SC behaviour
    if tier == "quick":
        sparams = [(8, 2000, 4, 16, seed), (16, 500, 4, 4, seed + 1)]
    else:
        sparams = [(16, 12500, 5, 64, seed), (16, 12500, 5, 2, seed + 1), (8, 25000, 5, 1024, seed + 2),
                   (4, 50000, 5, 8, seed + 3), (16, 2000, 30, 16, seed + 4)]
    stress = []
    if results_seen:
        try:
            stress = run_stress(sparams, release=True)
        except RuntimeError as e:
            proof["failures"].append("stress build failed: " + str(e)[-800:])
    stress_fail = [(pr, s) for pr, s in zip(sparams, stress) if not s or s[0] != 1]
    stress_ops = sum(s[1] for s in stress if s and s[0] == 1)

    rc = 0
    replay = None
    search_note = None
    if violations:
        desc, r = violations[0]
        small = r["case"]
        try:
            small = shrink_case(r["case"])
        except Exception:
            pass
        rs = run_conc([small])[0]
        if conc_violation(rs) is None:
            rs = r
        replay = common.write_replay(pid, dict(property=pid, domain="conc", what=conc_violation(rs) or desc,
                                               replay_cmd="./sv replay <this file>", **summarize(rs)))
        print("VIOLATION property=%s replay=%s" % (pid, replay))
        rc = 1
    elif stress_fail:
        pr, s = stress_fail[0]
        codes = {2: "a handle was returned twice", 3: "deletion of a live handle failed", 4: "a live handle reported dead",
                 5: "panic", 6: "alive set after maintain differs from initial + created - requested",
                 7: "a queued action was lost, duplicated or reordered", 1: "maintain panicked", 9: "the harness crashed"}
        replay = common.write_replay(pid, dict(property=pid, domain="conc", kind="stress",
                                               what="stress run on real threads: " + codes.get(s[1] if len(s) > 1 else 9, "failure"),
                                               stress_params=list(pr), result=s,
                                               replay_cmd="./sv replay <this file>"))
        print("VIOLATION property=%s replay=%s" % (pid, replay))
        rc = 1
    elif proof["failures"] or diverged:
        # the required correspondence (corr:conc/faithful) or a proof obligation fails while the predicate held
        # on everything seen: search for a failing input with ten times the random budget
        extra = []
        if results_seen:
            rng = random.Random(seed + 7919)
            for _ in range(30000):
                setup = rng.choice(cg.SETUPS + [cg.SETUP_PENDING])
                progs = cg.random_programs(rng, setup, rng.randint(2, 4), 4)
                extra.append(cg.encode_case(setup, progs, cg.random_schedule(rng, progs)))
            try:
                for r in run_conc(extra):
                    if conc_violation(r):
                        violations.append((conc_violation(r), r))
                        break
            except RuntimeError:
                pass
        search_note = "failing-input search over %d further cases: %s" % (len(extra), "found" if violations else "none found")
        if violations:
            desc, r = violations[0]
            replay = common.write_replay(pid, dict(property=pid, domain="conc", what=desc,
                                                   replay_cmd="./sv replay <this file>", **summarize(r)))
            print("VIOLATION property=%s replay=%s" % (pid, replay))
        else:
            obj = dict(property=pid, domain="conc", search=search_note, failing=proof["failures"])
            if diverged:
                obj.update(what="correspondence corr:conc/faithful no longer holds: the implementation and the model "
                                "disagree under the same schedule", **summarize(diverged[0]))
            else:
                obj.update(what="proof obligation / build no longer checks" +
                                (" (the yield hook is missing from the sources: apply hooks/c10_yield.patch)"
                                 if hooks_missing else ""))
            replay = common.write_replay(pid, obj)
            print("VIOLATION property=%s replay=%s no-failing-input-found" % (pid, replay))
        rc = 1

    n = n_eval
    pick = samples_r[:1] + samples_r[len(samples_r) // 2:len(samples_r) // 2 + 1] + samples_r[-1:]
    samples = [summarize(r) for r in pick]
    corr_ok = results_seen and not diverged and not violations
    ok_all = results_seen and not violations and not stress_fail
    ev = dict(
        property_id=pid, tier=tier, seed=seed, level="proof",
        coverage=dict(
            obligations=proof["obligations"] + 2,
            discharged=proof["discharged"] + (1 if corr_ok else 0) + (1 if ok_all else 0),
            checker_cmd="make -C coq theories/%s.vo (coqc 8.16.1, full .vo) + Print Assumptions + ./sv check %s" % (
                p["module"].replace(".", "/"), pid),
            trusted_base=trusted_common + TRUSTED_CONC,
            theorems=proof["theorems"], axioms=proof["axioms"], proof_failures=proof["failures"],
            correspondence=dict(required="corr:conc/faithful",
                                faithful_equal=n_eq, faithful_diverged=n_eval - n_eq,
                                predicate_true=n_ok, predicate_false=n_eval - n_ok),
            evaluations=n, distinct=n_distinct, distinct_nontrivial=n_nontriv,
            rule="cases = (sequential prefix, one program per thread, schedule). Program tuples: every tuple of programs "
                 "of the stated shape over the op alphabet {create, delete(live initial), delete(own 0), is_alive, push, "
                 "delete(dead/pending initial)} (quick: {create, delete(live initial), delete(own 0), push}), up to "
                 "permutation of the threads, from four initial states (free list empty / of 1 / of 2, and deletion "
                 "requests pending). Schedules: enumerated by the extracted Coq model itself (depth-first over the "
                 "transition system): for 2 threads x 1 op every schedule with every atomic step a scheduling point; for "
                 "the larger shapes every schedule up to the position of the steps that read only phase-immutable data "
                 "(cache read, generation read), which are taken right after the step enabling them and commute with "
                 "every step of every other thread. Plus random programs (up to %d threads x %d ops) under random "
                 "schedules with out-of-range indices. Every case runs on the real code in lock step (yield hook) and "
                 "on the extracted model; transcripts (per-thread results, allocator dump before and after maintain, "
                 "entities join, run order of the queued actions, probes) must be equal and the extracted c10_ok must "
                 "hold on the implementation's transcript. non-trivial = an enumerated schedule in which at least one "
                 "compare-exchange failed and was retried (schedule longer than the contention-free step count)"
                 % ((4, 4) if tier == "quick" else (8, 6)),
            generator=dict(gstats), output_histogram=dict(hist),
            samples=samples, exhaustive=results_seen and not hooks_missing,
            exhaustive_note="exhaustive over the enumerated program shapes and schedules as stated in rule; the random part is a sample",
            stress=dict(params=[list(x) for x in sparams], results=stress, operations=stress_ops,
                        note="threads, ops per thread and round, rounds, initial free-list size, seed; unhooked release "
                             "build on real threads; result 1 <ops> <created> <reused indices> = predicate held"),
            search=search_note,
        ),
        assumptions=["sequential consistency of the atomic steps (weak-memory behaviour is sampled by the stress run only)",
                     "the handles a program names were issued by the allocator (hinit_okb; checked per case: %d failures)" % badhyp,
                     "generations < 2^31, indices < 2^24, max_id < usize::MAX (cases here are far smaller)"],
        wall_s=round(time.time() - t0, 2), violations=len(violations) + len(stress_fail),
    )
    common.write_evidence(pid, ev)
    common.cleanup_run_dir()
    return rc


def replay_conc(path, obj):
    pid = obj["property"]
    if obj.get("kind") == "stress":
        s = run_stress([tuple(obj["stress_params"])], release=True)[0]
        print(json.dumps(dict(stress_params=obj["stress_params"], result=s), indent=1))
        common.cleanup_run_dir()
        if not s or s[0] != 1:
            print("VIOLATION property=%s replay=%s" % (pid, path))
            return 1
        print("no violation on this run (stress runs are not deterministic)")
        return 0
    if "encoded" not in obj:
        print(json.dumps(obj, indent=1))
        return 1
    r = run_conc([obj["encoded"]])[0]
    print(json.dumps(summarize(r), indent=1))
    common.cleanup_run_dir()
    v = conc_violation(r)
    if v or not r["eq"]:
        print("VIOLATION property=%s replay=%s%s" % (pid, path, "" if v else " no-failing-input-found"))
        return 1
    print("no violation on this case")
    return 0
