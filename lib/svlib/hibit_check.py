"""The tie of the hierarchical-bit-set model (coq/theories/Bits) to the crate the implementation is built on:
the same cases are run by the harness (real BitSet / BitSetAnd.. / BitIter / BitProducer::split) and by the
extracted model; the transcripts (layers, membership, iteration, leaves of the split tree) must be equal."""
import os
import random

from . import common
import hibit_gen as hg


def run_cases(cases, release=False):
    exe = common.build_harness(release)
    drv = common.build_ocaml()
    d = common.run_dir()
    f = os.path.join(d, "hibit_cases.txt")
    with open(f, "w") as fh:
        for c in cases:
            fh.write(" ".join(map(str, c)) + "\n")
    rc1, impl = common.sh([exe, "hibit", f], timeout=1800)
    rc2, model = common.sh([drv, "hibit", f], timeout=1800)
    if rc1 != 0 or rc2 != 0:
        raise RuntimeError("hibit run failed: harness rc=%d driver rc=%d\n%s\n%s" % (rc1, rc2, impl[-500:], model[-500:]))
    il, ml = impl.splitlines(), model.splitlines()
    out = []
    for k, c in enumerate(cases):
        i = il[k].strip() if k < len(il) else "<missing>"
        m = ml[k].strip() if k < len(ml) else "<missing>"
        out.append({"case": c, "impl": i, "model": m, "equal": i == m})
    return out


def explore(n, seed):
    rng = random.Random(seed * 7919 + 17)
    cases = [hg.case(rng) for _ in range(n)]
    res = run_cases(cases)
    bad = [r for r in res if not r["equal"]]
    stats = {"cases": len(cases), "combined sets": sum(1 for c in cases if c[0] != 0),
             "with at least one split": sum(1 for r in res if r["impl"].count("| 11") >= 2),
             "leaves": sum(r["impl"].count("| 11") for r in res),
             "items iterated": sum(len(p.split()) - 1 for r in res for p in r["impl"].split("|") if p.strip().startswith("10"))}
    return res, bad, stats
