"""Property C18: derived ConvertSaveload / Component behave as the field-wise model says.

check_derive(pid, tier, seed): proof obligations, then generated crates carrying the
real derives are built against VERIF_REPO and run; every value's JSON, round-trip
result and every component's storage type are compared with the extracted model."""
import collections
import hashlib
import json
import os
import random
import re
import shutil
import subprocess
import time

from . import common
from .common import ROOT, CACHE, REPO, log

import derive_gen as dg

PLACEHOLDER = dict(kind="struct", generic=False, fields=("tuple", [dict(name=0, attrs=[], ty=("prim", 0))]))


# ------------------------------------------------------------------ building and running one crate

def crate_dir(n):
    tag = "" if REPO == "/repo" else re.sub(r"[^A-Za-z0-9]", "_", REPO)
    return os.path.join(CACHE, "derive-gen" + tag, str(n))


def cargo_env():
    # the target directory of the harness (same flags and profile), so `specs` is not rebuilt
    tag = "" if REPO == "/repo" else re.sub(r"[^A-Za-z0-9]", "_", REPO)
    target = os.path.join(CACHE, "cargo" + tag)
    env = dict(common.ENV)
    env["CARGO_TARGET_DIR"] = target
    env["RUSTFLAGS"] = "--cfg %s --check-cfg=cfg(%s) -Awarnings" % (common.GUARD, common.GUARD)
    return env, target


def build_crate(src, n, timeout=1800):
    """write the crate, build it; returns (exe copy or None, compiler output)"""
    with common.Lock("cargo"):
        d = crate_dir(n)
        os.makedirs(os.path.join(d, "src"), exist_ok=True)
        with open(os.path.join(d, "Cargo.toml"), "w") as f:
            f.write(dg.CARGO_TOML % REPO)
        lock = os.path.join(REPO, "Cargo.lock")
        if not os.path.exists(lock):         # a scratch checkout: the lock file is not tracked
            lock = os.path.join(ROOT, "harness", "Cargo.lock")
        shutil.copy(lock, os.path.join(d, "Cargo.lock"))
        with open(os.path.join(d, "src", "main.rs"), "w") as f:
            f.write(src)
        env, target = cargo_env()
        rc, out = common.sh(["cargo", "build", "--offline", "--quiet"], cwd=d, timeout=timeout, env=env)
        if rc != 0:
            return None, out
        exe = os.path.join(common.run_dir(), "derive-gen-%d" % n)
        shutil.copy(os.path.join(target, "debug", "derive-gen"), exe)
        return exe, out


def failing_owners(out, owner):
    """definitions / cases the compiler errors point at"""
    defs, cases, other = set(), set(), 0
    for m in re.finditer(r"--> src/main\.rs:(\d+):\d+", out):
        o = owner.get(int(m.group(1)))
        if o is None:
            other += 1
        elif o[0] == "def":
            defs.add(o[1])
        else:
            cases.add(o[1])
    return defs, cases, other


def uses_def(t, ks):
    return t[0] == "named" and (t[1] in ks or (t[2] is not None and uses_def(t[2], ks)))


def def_uses(d, ks):
    fss = [d["fields"][1]] if d["kind"] == "struct" else [v["fields"][1] for v in d["variants"]]
    return any(uses_def(f["ty"], ks) for fs in fss for f in fs)


def drop_defs(c, ks):
    """replace definitions ks (and everything depending on them) by a placeholder; drop their cases"""
    ks = set(ks)
    for k, d in enumerate(c.defs):
        if k not in ks and def_uses(d, ks):
            ks.add(k)
    for k in ks:
        c.defs[k] = PLACEHOLDER
        c.cattrs[k] = []
    c.cases = [x for x in c.cases if not uses_def(x["ty"], ks)]
    c.scases = [x for x in c.scases if not uses_def(x["ty"], ks)]
    return ks


def run_exe(exe):
    p = subprocess.run([exe], stdout=subprocess.PIPE, stderr=subprocess.PIPE, text=True, timeout=600)
    slots, cases, storages = {}, {}, {}
    for line in p.stdout.split("\n"):
        if line.startswith("E "):
            k, i, g, m = [int(x) for x in line.split()[1:]]
            slots[k] = (i, g, m)
        elif line.startswith("C "):
            parts = line.split(" ", 3)
            if parts[2] == "P":
                cases[int(parts[1])] = dict(panic=True)
            else:
                cases[int(parts[1])] = dict(panic=False, rt=int(parts[2]), json=parts[3])
        elif line.startswith("S "):
            parts = line.split(" ", 2)
            storages[int(parts[1])] = parts[2]
    return p.returncode, [slots[k] for k in sorted(slots)], cases, storages


def run_model(lines):
    drv = common.build_ocaml()
    path = os.path.join(common.run_dir(), "derive_cases.txt")
    with open(path, "w") as f:
        for l in lines:
            f.write(" ".join(map(str, l)) + "\n")
    p = subprocess.run([drv, "derive", path], stdout=subprocess.PIPE, text=True, timeout=3600)
    if p.returncode != 0:
        raise RuntimeError("model driver failed on the derive domain")
    out = p.stdout.rstrip("\n").split("\n") if lines else []
    if len(out) != len(lines):
        raise RuntimeError("model driver: %d outputs for %d cases" % (len(out), len(lines)))
    return [[[int(x) for x in part.split()] for part in l.split("|")] for l in out]


def coq_crosscheck(lines, outs, rng, k=25):
    """thorough tier: a sample of the cases is evaluated inside Coq (vm_compute on the
    un-extracted [derive_line]) and compared with what the extracted OCaml printed;
    returns (number compared, list of mismatching case lines)"""
    idx = sorted(rng.sample(range(len(lines)), min(k, len(lines))))
    d = os.path.join(CACHE, "pa")
    os.makedirs(d, exist_ok=True)
    path = os.path.join(d, "DC_%d.v" % os.getpid())
    with open(path, "w") as f:
        f.write("From SV Require Import Checkers.Driver.\nLocal Open Scope Z_scope.\n")
        for i in idx:
            f.write('Goal True. idtac "@@CASE %d". Abort.\n' % i)
            f.write("Eval vm_compute in (derive_line [%s]).\n" % "; ".join(map(str, lines[i])))
    rc, out = common.sh(["coqc", "-Q", os.path.join(common.COQ, "theories"), "SV", path], cwd=d, timeout=900)
    for ext in (".v", ".vo", ".vok", ".vos", ".glob"):
        try:
            os.remove(path[:-2] + ext)
        except OSError:
            pass
    try:
        os.remove(os.path.join(d, "." + os.path.basename(path)[:-2] + ".aux"))
    except OSError:
        pass
    if rc != 0:
        raise RuntimeError("Coq cross-check file failed:\n" + out[-2000:])
    bad = []
    chunks = out.split("@@CASE ")[1:]
    for ch in chunks:
        i = int(ch.split("\n", 1)[0])
        m = re.search(r"=\s*(\[.*?\])\s*:\s*list \(list Z\)", ch, re.S)
        val = json.loads(re.sub(r"\s+", "", m.group(1)).replace(";", ",")) if m else None
        if val != outs[i]:
            bad.append(" ".join(map(str, lines[i])))
    return len(chunks), bad


# ------------------------------------------------------------------ one crate: generate, build, run, compare

def check_crate(seed, n, n_types, stats, crosscheck=False):
    """returns (violations, samples, counters) ; a violation is a dict"""
    rng = random.Random(seed * 7919 + n * 104729 + 18)
    c = dg.gen_crate(rng, n_types)
    violations = []
    dropped = set()
    exe = None
    for attempt in range(4):
        src, owner = dg.crate_rust(c, random.Random(seed + n))
        exe, out = build_crate(src, n)
        if exe is not None:
            break
        defs, cases, other = failing_owners(out, owner)
        case_ty = {x["id"]: x["ty"] for x in c.cases + c.scases}
        for cid in cases:
            if cid in case_ty:
                defs.add(case_ty[cid][1])
        first_err = "\n".join(out.split("\n")[:40])
        if not defs or attempt == 3:
            violations.append(dict(what="the generated crate does not compile (the derive output for a supported "
                                        "shape is rejected by rustc, or the macro panicked)",
                                   crate=crate_dir(n), rustc=first_err))
            return violations, [], c
        for k in sorted(defs):
            violations.append(dict(what="the code derived for a supported shape does not compile",
                                   type="T%d" % k, rust=dg.def_rust(k, c.defs[k], c.cattrs[k]),
                                   rustc=excerpt_for(out, owner, k)))
        dropped |= drop_defs(c, defs)
        log("derive: crate %d: definitions %s do not compile; retrying without them (%d dropped)" % (
            n, sorted(defs), len(dropped)))
    rc, slots, got, got_st = run_exe(exe)
    if rc != 0 or len(slots) != dg.N_SLOTS:
        violations.append(dict(what="the generated program crashed (exit code %s)" % rc, crate=crate_dir(n)))
        return violations, [], c
    lines = [dg.encode_case(c, case, slots) for case in c.cases] + [dg.encode_storage_case(c.cattrs[sc["k"]]) for sc in c.scases]
    outs = run_model(lines)
    if crosscheck:
        cnt, bad = coq_crosscheck(lines, outs, rng)
        stats["kinds"]["vm_compute-crosschecked"] += cnt
        if bad:
            raise RuntimeError("extracted model and vm_compute disagree on: " + bad[0][:1500])
    samples = []
    for case, line, mo in zip(c.cases, lines, outs[:len(c.cases)]):
        stats["evaluations"] += 1
        key = hashlib.sha1(" ".join(map(str, line)).encode()).hexdigest()
        g = got.get(case["id"])
        tag = mo[0][0]
        rust_ty = dg.ty_rust(case["ty"])
        k = case["ty"][1]
        info = dict(type=rust_ty, definition=dg.def_rust(k, c.defs[k], c.cattrs[k]),
                    value=dg.value_rust(c, case["ty"], case["value"]), entities=[list(s) for s in slots],
                    encoded=" ".join(map(str, line)))
        if tag in (2, 3) or (tag != 2 and mo[-1] != [1, 1]):
            raise RuntimeError("generator produced a case outside the supported grammar: %r -> %r" % (info, mo))
        if g is None:
            violations.append(dict(what="the program printed nothing for this value", **info))
            continue
        ents = dg.converted_ents(c, case["ty"], case["value"])
        stats["kinds"]["panic" if tag == 1 else "ok"] += 1
        if ents and dg.value_size(case["value"]) >= 3:
            stats["nontrivial"].add(key)
        stats["distinct"].add(key)
        if tag == 1:
            info["model"] = "panic: an entity in a converted field has no marker"
            if not g["panic"]:
                violations.append(dict(what="convert_into returned although a converted entity has no marker "
                                            "(the model panics at the Entity leaf)", impl_json=g["json"], **info))
            continue
        exp = dg.canon_json(dg.decode_json_tokens(mo[1])) if mo[1] != [9] else None
        info["model_json"] = exp
        if g["panic"]:
            violations.append(dict(what="the derived conversion panicked on a value whose converted entities all have markers", **info))
            continue
        try:
            act = dg.canon_json(json.loads(g["json"]))
        except ValueError:
            act = g["json"]
        info["impl_json"] = act
        info["impl_round_trip_equal"] = bool(g["rt"])
        if exp != act:
            violations.append(dict(what="the data produced by the derived convert_into differs from the field-wise "
                                        "definition (field order / conversion of a field / variant / marker)", **info))
        elif not g["rt"] or mo[2] != [1]:
            violations.append(dict(what="convert_from(convert_into(v)) is not equal to v", **info))
        if len(samples) < 2 and ents and case["id"] % 7 == 3:
            samples.append(info)
    for sc, line, mo in zip(c.scases, lines[len(c.cases):], outs[len(c.cases):]):
        stats["evaluations"] += 1
        key = hashlib.sha1((" ".join(map(str, line)) + dg.ty_rust(sc["ty"])).encode()).hexdigest()
        stats["distinct"].add(key)
        attrs = c.cattrs[sc["k"]]
        kind = storage_kind(attrs)
        stats["kinds"]["storage:" + kind] += 1
        stats["nontrivial"].add(key)
        self_name = dg.ty_rust(sc["ty"])
        exp = dg.decode_storage_out(mo[0], self_name)
        act = got_st.get(sc["id"])
        info = dict(type=self_name, attributes=[("#[storage(%s)]" % dg.path_rust(a[1])) if a[0] == "storage" else a[2] for a in attrs],
                    model_storage=exp, impl_storage=act, encoded=" ".join(map(str, line)))
        if act is None or exp is None or dg.canon_type_name(act) != exp:
            violations.append(dict(suite="storage", what="#[derive(Component)] selected a storage other than the requested one "
                                        "(or than DenseVecStorage<Self> when none is requested)", **info))
        if len(samples) < 3 and kind != "default":
            samples.append(info)
    if dropped:
        stats["kinds"]["dropped-definitions"] += len(dropped)
    return violations, samples, c


def excerpt_for(out, owner, k):
    blocks = re.split(r"\n(?=error)", out)
    keep = []
    for b in blocks:
        m = re.search(r"--> src/main\.rs:(\d+):\d+", b)
        if m and owner.get(int(m.group(1))) == ("def", k):
            keep.append(b)
    return "\n".join(keep)[:3000]


def storage_kind(attrs):
    st = [a for a in attrs if a[0] == "storage"]
    if not st:
        return "default"
    last = st[0][1][-1]
    return ("explicit" if last[1] is not None else "implicit") + ("-path" if len(st[0][1]) > 1 else "") + (
        "-twice" if len(st) > 1 else "")


def shape_histogram(c, hist):
    for k, d in enumerate(c.defs):
        if d is PLACEHOLDER:
            continue
        hist["nesting=%d" % c.depth[k]] += 1
        hist["generic" if d["generic"] else "non-generic"] += 1
        if d["kind"] == "struct":
            hist["struct-" + d["fields"][0]] += 1
            fss = [d["fields"][1]]
        else:
            hist["enum"] += 1
            for v in d["variants"]:
                hist["variant-" + v["fields"][0]] += 1
                if v["attrs"]:
                    hist["variant-renamed"] += 1
            fss = [v["fields"][1] for v in d["variants"]]
        for fs in fss:
            hist["fields=%d" % len(fs)] += 1
            for f in fs:
                hist["field:" + f["ty"][0]] += 1
                for a in f["attrs"]:
                    hist["attr:" + a[0]] += 1


# ------------------------------------------------------------------ the check

def check_derive(pid, tier, seed):
    from . import checks
    t0 = time.time()
    p = checks.PROPS[pid]
    proof = checks.proof_obligations(pid, tier)
    n_crates = 1 if tier == "quick" else 6
    n_types = 48 if tier == "quick" else 60
    stats = dict(evaluations=0, kinds=collections.Counter(), nontrivial=set(), distinct=set())
    hist = collections.Counter()
    violations, samples = [], []
    harness_error = None
    try:
        for n in range(n_crates):
            v, s, c = check_crate(seed, n, n_types, stats, crosscheck=(tier == "thorough" and n == 0))
            violations += v
            samples += s
            shape_histogram(c, hist)
        for need in ("struct-named", "struct-tuple", "enum", "variant-unit", "variant-tuple", "variant-named",
                     "generic", "attr:skip", "attr:fwd", "field:ent", "field:named", "field:param"):
            if hist[need] == 0:
                proof["failures"].append("generator bucket empty: " + need)
        search_note = None
        if proof["failures"] and not violations:
            # failing-input search: further crates from other seeds
            extra = 2
            for n in range(n_crates, n_crates + extra):
                v, s, c = check_crate(seed + 7919, n, n_types, stats)
                violations += v
            search_note = "failing-input search over %d further crates: %s" % (extra, "found" if violations else "none found")
    except RuntimeError as e:
        harness_error = str(e)[-3000:]
        search_note = None

    rc = 0
    # report a difference in behaviour before a definition that merely fails to compile
    violations.sort(key=lambda v: 1 if "compile" in v["what"] else 0)
    if violations:
        v = violations[0]
        replay = common.write_replay(pid, dict(property=pid, domain="derive", tier=tier, seed=seed,
                                               count=len(violations), others=[x["what"] for x in violations[1:6]], **v))
        print("VIOLATION property=%s replay=%s" % (pid, replay))
        rc = 1
    elif proof["failures"] or harness_error:
        replay = common.write_replay(pid, dict(property=pid, domain="derive", tier=tier, seed=seed,
                                               what="proof obligation or correspondence machinery no longer checks",
                                               failing=proof["failures"], harness_error=harness_error, search=search_note))
        print("VIOLATION property=%s replay=%s no-failing-input-found" % (pid, replay))
        rc = 1

    conv_ok = not any(v.get("suite") != "storage" for v in violations) and not harness_error
    st_ok = not any(v.get("suite") == "storage" for v in violations) and not harness_error
    if not samples:
        samples = [dict(note="no sample collected", violations=len(violations))]
    ev = dict(
        property_id=pid, tier=tier, seed=seed, level="proof",
        coverage=dict(
            obligations=proof["obligations"] + 2,
            discharged=proof["discharged"] + (1 if conv_ok else 0) + (1 if st_ok else 0),
            checker_cmd="make -C coq theories/%s.vo (coqc 8.16.1, full .vo) + Print Assumptions + ./sv check %s" % (
                p["module"].replace(".", "/"), pid),
            trusted_base=checks.TRUSTED_COMMON + [
                "C18: the model is of the macros' output as a function of the shape (coq/theories/SaveLoad/Derive.v); rustc's "
                "expansion and type checking of the emitted tokens, serde's derive and serde_json are trusted; the model of "
                "serde's default representation (DeriveCodec.v ser_*) and gen/derive_gen.py are unverified glue"],
            theorems=proof["theorems"], axioms=proof["axioms"], proof_failures=proof["failures"],
            correspondence=dict(required="corr:derive/faithful", conversions_equal=conv_ok, storages_equal=st_ok,
                                harness_error=harness_error),
            evaluations=stats["evaluations"], distinct_nontrivial=len(stats["nontrivial"]), distinct=len(stats["distinct"]),
            rule="type definitions drawn from the grammar of supported shapes (named / tuple structs, enums with unit, tuple and "
                 "named variants, 1..8 fields, nesting <= 3, one type parameter, skip and forwarded serde(rename) attributes, "
                 "storage attribute absent / bare / with <Self> / multi-segment / repeated) carrying the real derives, built "
                 "against the repository; each value goes convert_into -> serde_json -> convert_from in a World with "
                 "SimpleMarker entities (permuted marker ids, generations 1 and 2, two entities unmarked) and is compared with "
                 "the extracted model (JSON text, round-trip equality, panic on an unmarked entity); every component's "
                 "type_name::<Storage>() is compared with storage_type. non-trivial = a conversion case whose value has >= 3 nodes "
                 "and at least one entity in a converted position, or a storage case; distinct by hash of the encoded case",
            generator=dict(crates=n_crates, types_per_crate=n_types), shape_histogram=dict(hist),
            case_histogram=dict(stats["kinds"]),
            samples=samples[:4], exhaustive=False, search=search_note,
        ),
        assumptions=["marker ids < 2^63 (the glue reads them as OCaml ints)",
                     "the generated programs use only the public API of specs and the two derives"],
        wall_s=round(time.time() - t0, 2), violations=len(violations),
    )
    common.write_evidence(pid, ev)
    common.cleanup_run_dir()
    return rc


def replay(obj):
    """re-run the check that produced the replay file (same tier and seed)"""
    print(json.dumps({k: obj[k] for k in obj if k not in ("entities",)}, indent=1)[:6000])
    return check_derive(obj["property"], obj.get("tier", "quick"), int(obj.get("seed", 1)))
