"""The `saveload` domain (properties C14 / C15): execution on both sides, direct checks evaluated on
the implementation transcript, classification, shrinking, evidence.

The transcript format is fixed by coq/theories/SaveLoad/SLOps.v (`enc_sout ++ enc_dump`); the
interpreter below re-plays the bookkeeping of the driver (`d_step`): two worlds, per world the list of
handles seen (`hs_update`), the saved data."""
import collections
import hashlib
import json
import os
import random
import subprocess
import time

from . import common
from . import checks
from .common import ROOT, log

import saveload_gen as sg

NCOMP = 3
EXTRA_TRUSTED = [
    "serde, serde_json and ron are trusted to round-trip the derived data types; bytes are compared after "
    "parsing them back",
    "UuidMarkerAllocator::allocate(None) draws a random UUID: only deterministic-id paths are executed for "
    "that variant",
]


# ------------------------------------------------------------------ execution

CRASH = "99"        # the harness process died / hung / ran out of memory on this history
NOT_RUN = "98"      # not executed: too many histories crashed before it
MAX_CRASHES = 3
SINGLE_TIMEOUT = 10
SINGLE_MEM = 1 << 30
BATCH = 20000       # histories per harness process (the harness leaks the worlds of a history that panicked)
BATCH_MEM = 3 << 30


def _run_exe(exe, domain, hists, path, timeout, mem):
    """(complete transcript lines received, all histories done?)"""
    def limits():
        import resource
        # a runaway implementation (e.g. a loop that allocates) must fail fast, not eat the machine
        resource.setrlimit(resource.RLIMIT_AS, (mem, mem))

    with open(path, "w") as f:
        for h in hists:
            f.write(sg.encode(h) + "\n")
    p = subprocess.Popen([exe, domain, path], stdout=subprocess.PIPE, stderr=subprocess.DEVNULL, text=True,
                         preexec_fn=limits)
    try:
        out, _ = p.communicate(timeout=timeout)
    except subprocess.TimeoutExpired:
        p.kill()
        out, _ = p.communicate()
        rc = -9
    else:
        rc = p.returncode
    lines = out.split("\n")
    lines = lines[:-1]                # the text after the last newline is empty or an incomplete line
    if rc == 0 and len(lines) == len(hists):
        return lines, True
    return lines[:max(len(hists) - 1, 0)], False


def run_harness_sl(exe, domain, hists, d):
    """like checks.run_harness, plus time and memory limits (a history on which the implementation hangs
    or dies gets the undecodable transcript CRASH).  The harness buffers its output, so after a failure
    the lines received are a prefix and the culprit lies a little further: walk on one at a time, then
    in growing batches.  After MAX_CRASHES culprits the rest is marked NOT_RUN."""
    path = os.path.join(d, "sl_part.txt")
    out, crashes = [], 0
    for lo in range(0, len(hists), BATCH):
        part = hists[lo:lo + BATCH]
        if crashes >= MAX_CRASHES:
            out.extend([NOT_RUN] * len(part))
            continue
        lines, ok = _run_exe(exe, domain, part, path, 60 + 0.01 * len(part), BATCH_MEM)
        out.extend(lines)
        if ok:
            continue
        log("harness crashed or hung; isolating the histories responsible")
        pos, step = len(lines), 1
        while pos < len(part):
            if crashes >= MAX_CRASHES:
                out.extend([NOT_RUN] * (len(part) - pos))
                break
            end = min(pos + step, len(part))
            ls, ok = _run_exe(exe, domain, part[pos:end], path, SINGLE_TIMEOUT if step == 1 else 20 + 0.01 * step,
                              SINGLE_MEM if step == 1 else BATCH_MEM)
            if ok:
                out.extend(ls)
                pos, step = end, step * 8
            elif step == 1:
                out.append(CRASH)
                crashes += 1
                pos = end
            else:
                out.extend(ls)
                pos, step = pos + len(ls), 1
    assert len(out) == len(hists)
    return out


def run_saveload(hists, uuid=False, release=False):
    """execute histories on the implementation and on the extracted model"""
    if not hists:
        return []
    exe = common.build_harness(release)
    drv = common.build_ocaml()
    d = common.run_dir()
    hf = os.path.join(d, "sl_hist.txt")
    tf = os.path.join(d, "sl_impl.txt")
    impl_lines = run_harness_sl(exe, "saveload-uuid" if uuid else "saveload", hists, d)
    with open(hf, "w") as f:
        for h in hists:
            f.write(sg.encode(h) + "\n")
    with open(tf, "w") as f:
        f.write("\n".join(impl_lines) + "\n")
    p = subprocess.run([drv, "saveload", "1" if uuid else "0", hf, tf], stdout=subprocess.PIPE,
                       stderr=subprocess.PIPE, text=True, timeout=7200)
    if p.returncode != 0:
        raise RuntimeError("model driver failed (rc %s): %s" % (p.returncode, p.stderr[-500:]))
    lines = p.stdout.split("\n")
    res = []
    for k, h in enumerate(hists):
        if impl_lines[k] == NOT_RUN:
            continue
        v = lines[2 * k + 1].split()
        assert v[0] == "V"
        impl = checks.parse_tr(impl_lines[k])
        eq = int(v[1])
        # equal transcripts (decided by the extracted comparison) are parsed once
        model = impl if eq and lines[2 * k].strip() == impl_lines[k].strip() else checks.parse_tr(lines[2 * k])
        res.append(dict(hist=h, impl=impl, model=model, eq=eq, uuid=uuid, release=release))
    return res


# ------------------------------------------------------------------ transcript interpreter

class Bad(Exception):
    pass


class Dump:
    __slots__ = ("index", "mapping", "ents", "raw")

    def __init__(self, index, mapping, ents, raw):
        self.index = index          # SimpleMarkerAllocator.index, -1 in the uuid variant
        self.mapping = mapping      # id -> (index, generation)
        self.ents = ents            # (index, generation) -> (marker id or -1, (slot, slot, slot)), join order
        self.raw = raw              # slot: None | ("p", z) | ("r", (index, generation))

    def holders(self):
        h = {}
        for e, (m, _) in self.ents.items():
            if m >= 0:
                h.setdefault(m, []).append(e)
        return h


def empty_dump(uuid):
    return Dump(-1 if uuid else 0, {}, {}, [-1 if uuid else 0, 0, 0])


def parse_dump(xs, i):
    """xs[i:] must be exactly one dump"""
    raw = xs[i:]
    try:
        index = xs[i]
        nm = xs[i + 1]
        i += 2
        if nm < 0:
            raise Bad("mapping size")
        mapping = {}
        for _ in range(nm):
            mapping[xs[i]] = (xs[i + 1], xs[i + 2])
            i += 3
        ne = xs[i]
        i += 1
        if ne < 0:
            raise Bad("entity count")
        ents = {}
        for _ in range(ne):
            e = (xs[i], xs[i + 1])
            m = xs[i + 2]
            i += 3
            slots = []
            for _ in range(NCOMP):
                t = xs[i]
                if t == 0:
                    slots.append(None)
                    i += 1
                elif t == 1:
                    slots.append(("p", xs[i + 1]))
                    i += 2
                elif t == 2:
                    slots.append(("r", (xs[i + 1], xs[i + 2])))
                    i += 3
                else:
                    raise Bad("slot tag")
            if e in ents:
                raise Bad("entity listed twice")
            ents[e] = (m, tuple(slots))
    except IndexError:
        raise Bad("dump truncated")
    if i != len(xs):
        raise Bad("trailing integers")
    return Dump(index, mapping, ents, raw)


def parse_records(xs, i):
    """`enc_data`: count, then records id slot slot slot; returns (records, next position)"""
    try:
        n = xs[i]
        i += 1
        if n < 0:
            raise Bad("record count")
        recs = []
        for _ in range(n):
            m = xs[i]
            i += 1
            slots = []
            for _ in range(NCOMP):
                t = xs[i]
                if t == 0:
                    slots.append(None)
                    i += 1
                elif t == 1:
                    slots.append(("p", xs[i + 1]))
                    i += 2
                elif t == 2:
                    slots.append(("r", xs[i + 1]))
                    i += 2
                else:
                    raise Bad("slot tag")
            recs.append((m, slots))
    except IndexError:
        raise Bad("data truncated")
    return recs, i


def parse_output(o, prev):
    """one transcript entry -> (out, dump); out = the op-specific part as a list"""
    if not o:
        raise Bad("empty output")
    t = o[0]
    try:
        if t == 1:
            out, i = o[:3], 3
        elif t == 2:
            out, i = o[:2], 2
        elif t == 3:
            i = 2 if o[1] == 0 else 4
            out = o[:i]
        elif t == 4:
            out, i = o[:1], 1
        elif t == 5:
            recs, i = parse_records(o, 1)
            out = [5, recs]
        else:
            raise Bad("tag %d" % t)
    except IndexError:
        raise Bad("output truncated")
    if len(out) < (2 if t in (2, 3) else 1) or i > len(o):
        raise Bad("output truncated")
    if prev is not None and o[i:] == prev.raw:
        return out, prev                      # unchanged world: reuse the parsed dump
    return out, parse_dump(o, i)


def nat(x):
    return x if x > 0 else 0


class _Side:
    __slots__ = ("hs", "seen", "dump")

    def __init__(self, uuid):
        self.hs, self.seen, self.dump = [], set(), empty_dump(uuid)


class Ana:
    """what the direct checks found on one implementation transcript"""

    def __init__(self):
        self.c14, self.c15 = [], []
        self.panic_pos = None           # position of a `9`
        self.panic_predicted = False    # ... and whether the world before it explains it
        self.undecodable = None
        self.misuse = False             # MarkId with an id held by a live entity: API misuse, (u)/(m)/(d) skipped
        self.executed = 0
        self.round_trips = self.rt_nontrivial = 0
        self.merges = self.merge_nontrivial = 0
        self.remarks = 0                # Mark of an already marked entity
        self.loads = 0


def op_shape_ok(code, p):
    n = len(p)
    if code == sg.CREATE:
        return n == 1
    if code == sg.INSERT:
        return n == 4 and p[2] in (1, 2)
    if code in (sg.REMOVE, sg.MARKID, sg.LOAD):
        return n == 2
    if code in (sg.MARK, sg.DELETE, sg.EDELETE, sg.SER, sg.SERREC):
        return n == 1
    if code in (sg.MAINTAIN, sg.AMAINTAIN, sg.SWAP):
        return n == 0
    if code == sg.DESER:
        return n >= 1 and sg.dec_records(p[1:]) is not None
    if code == sg.DELMANY:
        return True
    return False


def fmt_e(e):
    return "(%d,%d)" % e


def _canon(recs):
    return sorted(tuple(sg.enc_records([r])) for r in recs)


# ---- C15 checks

def check_invariants(a, pos, d, uuid):
    """(u) (c) (m) on one dump"""
    hold = d.holders()
    if not a.misuse:
        for m, es in hold.items():
            if len(es) > 1:
                a.c15.append("(u) after op %d: live entities %s carry the same marker id %d" % (
                    pos, ", ".join(fmt_e(e) for e in es), m))
                break
        for m, es in hold.items():
            if d.mapping.get(m) != es[0]:
                a.c15.append("(m) after op %d: live entity %s carries marker id %d but mapping[%d] = %s" % (
                    pos, fmt_e(es[0]), m, m, d.mapping.get(m)))
                break
    if not uuid:
        top = max(list(hold) + list(d.mapping) + [-1])
        if d.index <= top:
            a.c15.append("(c) after op %d: allocator index %d is not above marker id %d in use" % (pos, d.index, top))


def check_mark(a, pos, code, p, e, before, after, out, uuid):
    ent = before.ents.get(e)
    nm = sg.NAMES[code]
    if ent is None:
        if out != [3, 0] or after.raw != before.raw:
            a.c15.append("(k) op %d %s on %s which is not alive: output %s, expected `3 0` and no change" % (
                pos, nm, fmt_e(e), out))
        return
    if ent[0] >= 0:
        a.remarks += 1
        if out != [3, 1, ent[0], 0]:
            a.c15.append("(k) op %d %s on %s already marked %d: output %s, expected `3 1 %d 0`" % (
                pos, nm, fmt_e(e), ent[0], out, ent[0]))
        elif after.raw != before.raw:
            a.c15.append("(k) op %d %s on %s already marked %d changed the world" % (pos, nm, fmt_e(e), ent[0]))
        return
    if code == sg.MARK:
        want = before.index
        index2 = before.index + 1
    else:
        want = nat(p[1])
        if want in before.holders():
            a.misuse = True
            return
        index2 = -1 if uuid else max(before.index, want + 1)
    if out != [3, 1, want, 1]:
        a.c15.append("(k) op %d %s on unmarked live %s: output %s, expected `3 1 %d 1`" % (pos, nm, fmt_e(e), out, want))
        return
    ents2 = dict(before.ents)
    ents2[e] = (want, ent[1])
    map2 = dict(before.mapping)
    map2[want] = e
    if after.index != index2:
        a.c15.append("(k) op %d %s: allocator index %d -> %d, expected %d" % (pos, nm, before.index, after.index, index2))
    elif after.ents != ents2 or after.mapping != map2:
        a.c15.append("(k) op %d %s on %s: the world changed beyond the new marker %d and its mapping entry" % (
            pos, nm, fmt_e(e), want))


def check_deser(a, pos, nm, recs, before, after):
    """(d)"""
    a.loads += 1
    mentioned = set()
    last = {}
    for m, slots in recs:
        mentioned.add(m)
        last[m] = slots
        for s in slots:
            if s is not None and s[0] == "r":
                mentioned.add(s[1])
    held_before = before.holders()
    created = [e for e in after.ents if e not in before.ents]
    if any(m in held_before for m in last):
        a.merges += 1
        if created:
            a.merge_nontrivial += 1
    if a.misuse:
        return
    out = a.c15
    n0 = len(out)
    for e, (m, _) in before.ents.items():
        x = after.ents.get(e)
        if x is None:
            out.append("(d) op %d %s: entity %s is gone" % (pos, nm, fmt_e(e)))
        elif x[0] != m:
            out.append("(d) op %d %s: marker of %s changed from %d to %d" % (pos, nm, fmt_e(e), m, x[0]))
        if len(out) > n0:
            return
    for e in created:
        m = after.ents[e][0]
        if m < 0:
            out.append("(d) op %d %s: new entity %s carries no marker" % (pos, nm, fmt_e(e)))
        elif m in held_before:
            out.append("(d) op %d %s: new entity %s duplicates marker id %d held by %s" % (
                pos, nm, fmt_e(e), m, fmt_e(held_before[m][0])))
        elif m not in mentioned:
            out.append("(d) op %d %s: new entity %s carries marker id %d which the data does not mention" % (
                pos, nm, fmt_e(e), m))
        if len(out) > n0:
            return
    hold = after.holders()
    for m in sorted(mentioned):
        k = len(hold.get(m, ()))
        if k != 1:
            out.append("(d) op %d %s: marker id %d of the data has %d holders afterwards (expected 1)" % (pos, nm, m, k))
            return
    for e, (m, sl) in after.ents.items():
        want = last.get(m) if m >= 0 else None
        if want is None:
            old = before.ents.get(e)
            if sl != (old[1] if old else (None,) * NCOMP):
                out.append("(d) op %d %s: components of %s (marker %d, no record in the data) changed" % (
                    pos, nm, fmt_e(e), m))
                return
            continue
        for k in range(NCOMP):
            w, g = want[k], sl[k]
            if w is None:
                ok = g is None
            elif w[0] == "p":
                ok = g == w
            else:
                ok = g is not None and g[0] == "r" and g[1] == hold[w[1]][0]
            if not ok:
                out.append("(d) op %d %s: entity %s (marker %d) component type %d is %s, the data records %s%s" % (
                    pos, nm, fmt_e(e), m, k, g, w,
                    " (absent: must be removed)" if w is None else ""))
                return


# ---- C14 checks

def predict_serialize(before):
    """records of plain serialize, or None if it must panic"""
    recs = []
    for e in sorted(before.ents):
        m, sl = before.ents[e]
        if m < 0:
            continue
        slots = []
        for s in sl:
            if s is None or s[0] == "p":
                slots.append(s)
            else:
                t = before.ents.get(s[1])
                if t is None or t[0] < 0:
                    return None
                slots.append(("r", t[0]))
        recs.append((m, slots))
    return recs


def closure(before):
    """(initially marked in ascending index order, least closed set) or None if a dead entity is reachable"""
    m0 = [e for e in sorted(before.ents) if before.ents[e][0] >= 0]
    seen = set(m0)
    todo = list(m0)
    while todo:
        e = todo.pop()
        for s in before.ents[e][1]:
            if s is not None and s[0] == "r":
                t = s[1]
                if t not in before.ents:
                    return None
                if t not in seen:
                    seen.add(t)
                    todo.append(t)
    return m0, seen


def check_serialize(a, pos, rec, before, after, recs, uuid):
    """(s); recs = the records printed"""
    if not rec:
        want = predict_serialize(before)
        if want is None:
            a.c14.append("(s) op %d Serialize returned data although a marked entity refers to an unmarked or dead "
                         "entity" % pos)
            return
        if after.raw != before.raw:
            a.c14.append("(s) op %d Serialize changed the world" % pos)
        if recs != want:
            a.c14.append("(s) op %d Serialize: records %s, expected one per marked entity in ascending index order: %s" % (
                pos, sg.enc_records(recs), sg.enc_records(want)))
        return
    cl = closure(before)
    if cl is None:
        a.c14.append("(s) op %d SerializeRec returned data although a dead entity is reachable" % pos)
        return
    m0, reach = cl
    if list(after.ents) != list(before.ents):
        a.c14.append("(s) op %d SerializeRec changed the set of entities" % pos)
        return
    new_ids = []
    for e, (m, sl) in before.ents.items():
        m2, sl2 = after.ents[e]
        if sl2 != sl:
            a.c14.append("(s) op %d SerializeRec changed components of %s" % (pos, fmt_e(e)))
            return
        if m >= 0:
            ok = m2 == m
        elif e in reach:
            ok = m2 >= 0 and (uuid or m2 >= before.index)
            new_ids.append(m2)
        else:
            ok = m2 < 0
        if not ok:
            a.c14.append("(s) op %d SerializeRec: entity %s marker %d -> %d; marked afterwards must be exactly the "
                         "marked before closed under references%s" % (
                             pos, fmt_e(e), m, m2, "" if e in reach else " (not reachable)"))
            return
    if len(set(new_ids)) != len(new_ids):
        a.c14.append("(s) op %d SerializeRec handed out a marker id twice: %s" % (pos, sorted(new_ids)))
        return
    hold = after.holders()
    ids = [m for m, _ in recs]
    want_ids = sorted(after.ents[e][0] for e in reach)
    if sorted(ids) != want_ids:
        a.c14.append("(s) op %d SerializeRec: record ids %s, expected each of %s once" % (pos, ids, want_ids))
        return
    if ids[:len(m0)] != [before.ents[e][0] for e in m0]:
        a.c14.append("(s) op %d SerializeRec: the previously marked entities do not come first in ascending index "
                     "order: %s" % (pos, ids))
        return
    for m, slots in recs:
        e = hold[m][0]
        want = []
        for s in after.ents[e][1]:
            want.append(s if (s is None or s[0] == "p") else ("r", after.ents[s[1]][0]))
        if slots != want:
            a.c14.append("(s) op %d SerializeRec: record of marker %d is %s, expected %s" % (pos, m, slots, want))
            return


def check_round_trip(a, pos, nm, recs, src, after):
    """(r): src = dump of the world the data was serialised from; after = the (previously empty) target"""
    a.round_trips += 1
    if len(recs) >= 2 and any(s is not None and s[0] == "r" for _, sl in recs for s in sl):
        a.rt_nontrivial += 1
    sh = src.holders()
    if any(len(es) > 1 for es in sh.values()):
        return
    th = after.holders()
    for e, (m, _) in after.ents.items():
        if m < 0:
            a.c14.append("(r) op %d %s into an empty world: entity %s has no marker" % (pos, nm, fmt_e(e)))
            return
    for m in sorted(set(sh) | set(th)):
        if m not in sh:
            a.c14.append("(r) op %d %s into an empty world: marker id %d has no marked source entity" % (pos, nm, m))
            return
        if len(th.get(m, ())) != 1:
            a.c14.append("(r) op %d %s into an empty world: %d entities for marker id %d (source entity %s)" % (
                pos, nm, len(th.get(m, ())), m, fmt_e(sh[m][0])))
            return
    for m in sorted(sh):
        ssl, tsl = src.ents[sh[m][0]][1], after.ents[th[m][0]][1]
        for k in range(NCOMP):
            s, t = ssl[k], tsl[k]
            if s is None or s[0] == "p":
                ok = t == s
            else:
                x = src.ents.get(s[1])
                ok = (x is not None and x[0] >= 0 and t is not None and t[0] == "r"
                      and after.ents.get(t[1], (-2,))[0] == x[0])
            if not ok:
                a.c14.append("(r) op %d %s into an empty world: marker %d component type %d: source %s, loaded %s" % (
                    pos, nm, m, k, s, t))
                return


def analyse(hist, impl, uuid):
    a = Ana()
    cur, oth = _Side(uuid), _Side(uuid)
    saved = []            # (records, canonical multiset, dump of the source world after the serialisation)
    prev_ser = None       # (position, records) of the serialisation executed just before, same world
    for pos, (code, p) in enumerate(hist):
        if pos >= len(impl):
            a.undecodable = pos
            break
        o = impl[pos]
        if o == [9]:
            a.panic_pos = pos
            if code in (sg.SER, sg.SERREC) and len(p) == 1:
                a.panic_predicted = (predict_serialize(cur.dump) if code == sg.SER else closure(cur.dump)) is None
            break
        if o == [8]:
            prev_ser = None
            continue
        before = cur.dump
        if code == sg.SWAP and not p:
            cur, oth = oth, cur
            before = cur.dump
        try:
            out, after = parse_output(o, before)
        except Bad:
            a.undecodable = pos
            break
        a.executed += 1
        if code == sg.SWAP and not p:
            prev_ser = None
            if after.raw != before.raw or out != [4]:
                a.undecodable = pos
                break
            continue
        if not op_shape_ok(code, p):
            a.undecodable = pos       # an op the decoder rejects must be skipped (`8`)
            break
        hs = cur.hs
        this_ser = None
        if code in (sg.MARK, sg.MARKID) and hs:
            check_mark(a, pos, code, p, hs[nat(p[0]) % len(hs)], before, after, out, uuid)
        elif code in (sg.DESER, sg.LOAD):
            if code == sg.DESER:
                recs = sg.dec_records(p[1:])
                src = None
                if not before.ents and not before.mapping:
                    c = _canon(recs)
                    for _, c2, d2 in saved:
                        if c2 == c:
                            src = d2
                            break
            else:
                recs, _, src = saved[nat(p[1]) % len(saved)] if saved else ([], None, None)
            nm = sg.NAMES[code]
            check_deser(a, pos, nm, recs, before, after)
            if src is not None and not before.ents and not before.mapping:
                check_round_trip(a, pos, nm, recs, src, after)
        elif code in (sg.SER, sg.SERREC):
            if out[0] != 5:
                a.undecodable = pos
                break
            recs = out[1]
            check_serialize(a, pos, code == sg.SERREC, before, after, recs, uuid)
            # neither of the two changed the world (a SerializeRec that marks something does)
            if prev_ser is not None and prev_ser[0] == pos - 1 and after.raw == before.raw and recs != prev_ser[1]:
                a.c14.append("(f) ops %d and %d serialise the same unchanged world (formats %d, %d) but the data differ" % (
                    pos - 1, pos, hist[pos - 1][1][0], p[0]))
            saved.append((recs, _canon(recs), after))
            if after.raw == before.raw:
                this_ser = (pos, recs)
        prev_ser = this_ser
        if after is not before:
            check_invariants(a, pos, after, uuid)
            cur.dump = after
            for e in after.ents:
                if e not in cur.seen:
                    cur.seen.add(e)
                    hs.append(e)
    return a


def get_ana(r):
    if "ana" not in r:
        r["ana"] = analyse(r["hist"], r["impl"], r["uuid"])
    return r["ana"]


# ------------------------------------------------------------------ classification

def saveload_violation(pid, r, uuid=None):
    """a short description if result r shows property pid violated, else None"""
    if uuid is not None:
        r["uuid"] = uuid
    a = get_ana(r)
    if a.undecodable is not None:
        if r["impl"] == [[int(CRASH)]]:
            return ("implementation panicked outside catch_unwind, aborted, exceeded %d s or %d GiB on this history; "
                    "the model proves every step terminates without panicking" % (SINGLE_TIMEOUT, SINGLE_MEM >> 30))
        return ("implementation panicked or produced an undecodable output at op %d (%s); the model proves no such "
                "step exists" % (a.undecodable, sg.pretty(r["hist"][a.undecodable:a.undecodable + 1])))
    if a.panic_pos is not None:
        pos = a.panic_pos
        model = r["model"]
        if not (pos < len(model) and model[pos] == [9]):
            return "implementation panicked at op %d (%s) where the model does not" % (
                pos, sg.pretty(r["hist"][pos:pos + 1]))
    lst = a.c14 if pid == "C14" else a.c15
    return lst[0] if lst else None


def finding_class(pid, r):
    """name of the specific class of failing history a violation belongs to (hook; none known)"""
    return None


def nontrivial(pid, r):
    a = get_ana(r)
    if pid == "C14":
        return a.rt_nontrivial > 0
    return a.merge_nontrivial > 0 or a.remarks > 0


def first_difference(r):
    for k in range(max(len(r["impl"]), len(r["model"]))):
        i = r["impl"][k] if k < len(r["impl"]) else None
        m = r["model"][k] if k < len(r["model"]) else None
        if i != m:
            return k, i, m
    return None, None, None


def _tr(t):
    return " | ".join(" ".join(map(str, o)) for o in t)


def _cut(s, n=1500):
    return s if len(s) <= n else s[:n] + " ... (%d characters)" % len(s)


def summarize(r, cut=None):
    f = (lambda s: _cut(s, cut)) if cut else (lambda s: s)
    return dict(variant="uuid" if r["uuid"] else "simple", history=f(sg.pretty(r["hist"])),
                encoded=f(sg.encode(r["hist"])), impl=f(_tr(r["impl"])), model=f(_tr(r["model"])),
                faithful_equal=bool(r["eq"]))


# ------------------------------------------------------------------ generation

def gen_saveload(pid, tier, seed, scale=1):
    """(SimpleMarker histories, UuidMarker histories, generator stats)"""
    rng = random.Random(seed * 1000003 + sum(map(ord, pid)) + 17)
    simple, uu = [], []
    stats = collections.Counter()
    cdir = os.path.join(ROOT, "gen", "corpus", pid)
    if os.path.isdir(cdir):
        for f in sorted(os.listdir(cdir)):
            for line in open(os.path.join(cdir, f)):
                if line.strip():
                    (uu if "uuid" in f else simple).append(sg.decode(line))
                    stats["corpus"] += 1
    quick = tier == "quick"
    depth = 3 if quick else 4
    for pre in sg.ENUM_PREFIXES:
        for h in sg.enumerate_histories(depth, False, pre):
            simple.append(h)
            stats["enumerated simple(len<=%d+prefix)" % depth] += 1
        for h in sg.enumerate_histories(depth - 1, True, pre):
            uu.append(h)
            stats["enumerated uuid(len<=%d+prefix)" % (depth - 1)] += 1
    mult = (1 if quick else 10) * scale
    n_rt = (1500 if pid == "C14" else 600) * mult
    n_mg = (600 if pid == "C14" else 1500) * mult
    n_rand = 600 * mult
    maxlen = 70 if quick else 160
    for _ in range(n_rt):
        simple.append(sg.round_trip_history(rng, False))
        stats["round trips simple"] += 1
    for _ in range(n_rt // 2):
        uu.append(sg.round_trip_history(rng, True))
        stats["round trips uuid"] += 1
    for _ in range(n_mg):
        if rng.random() < 0.2:
            simple.append(sg.counter_history(rng))
            stats["ids above the counter simple"] += 1
        else:
            simple.append(sg.merge_history(rng, False))
            stats["merges simple"] += 1
    for _ in range(n_mg // 2):
        uu.append(sg.merge_history(rng, True))
        stats["merges uuid"] += 1
    for _ in range(n_rand // 3):
        simple.append(sg.batch_history(rng, False))
        stats["batch deletions (half of them failing) simple"] += 1
    for _ in range(n_rand // 6):
        uu.append(sg.batch_history(rng, True))
        stats["batch deletions (half of them failing) uuid"] += 1
    for _ in range(n_rand):
        simple.append(sg.random_history(rng, rng.randint(8, maxlen), False))
        stats["random simple"] += 1
    for _ in range(n_rand // 2):
        uu.append(sg.random_history(rng, rng.randint(8, maxlen), True))
        stats["random uuid"] += 1
    return simple, uu, stats


def run_both(simple, uu, release=False):
    return run_saveload(simple, False, release) + run_saveload(uu, True, release)


def shrink_saveload(pid, hist, uuid, budget=100):
    """delta debugging on the op list, keeping `some direct check of pid fails` (both sides re-run)"""
    def fails(h):
        if not h:
            return False
        return saveload_violation(pid, run_saveload([h], uuid)[0]) is not None

    cur = list(hist)
    n = 2
    deadline = time.time() + 150          # a hanging implementation costs SINGLE_TIMEOUT per attempt
    while len(cur) >= 2 and budget > 0 and time.time() < deadline:
        chunk = max(1, len(cur) // n)
        reduced = False
        for i in range(0, len(cur), chunk):
            cand = cur[:i] + cur[i + chunk:]
            budget -= 1
            if cand and fails(cand):
                cur, n, reduced = cand, max(n - 1, 2), True
                break
            if budget <= 0 or time.time() > deadline:
                break
        if not reduced:
            if chunk == 1:
                break
            n = min(n * 2, len(cur))
    return cur


# ------------------------------------------------------------------ the u64 boundary probe (C15)

def u64_probe(release):
    """harness/src/bin/c15_u64_wrap.rs: load data mentioning marker id 2^64-1, then mark a new entity.
    Returns (output line, is_duplicate): a build with overflow checks panics in `self.index = id + 1`;
    one without wraps the counter to 0 and the next mark() repeats the id of a live entity."""
    exe = common.build_harness(release)
    probe = os.path.join(os.path.dirname(exe), "c15_u64_wrap")
    if not os.path.exists(probe):
        return "probe binary missing", False
    try:
        q = subprocess.run([probe], stdout=subprocess.PIPE, stderr=subprocess.DEVNULL, text=True, timeout=120)
    except subprocess.TimeoutExpired:
        return "probe timed out", False
    line = (q.stdout.strip().split("\n") or [""])[0]
    dup = False
    if line.startswith("returned"):
        f = dict(t.split("=", 1) for t in line.split()[1:] if "=" in t)
        dup = f.get("first") is not None and f.get("first") == f.get("next")
    return line, dup


# ------------------------------------------------------------------ the check

def check_saveload(pid, tier, seed):
    t0 = time.time()
    p = checks.PROPS[pid]
    proof = checks.proof_obligations(pid, tier)
    simple, uu, gstats = gen_saveload(pid, tier, seed)
    results = run_both(simple, uu)
    if tier == "thorough":
        # release build as well: no overflow checks / debug assertions
        results = results + run_both(simple[-20000:], uu[-10000:], release=True)
    known, _fixed = checks.load_known_findings()
    known_cls = {(k["property"], k["cls"]): k for k in known}
    violations, known_hits, diverged = [], collections.OrderedDict(), []
    ophist, errkinds = collections.Counter(), collections.Counter()
    distinct, nontriv = set(), set()
    tot = collections.Counter()
    for r in results:
        key = hashlib.sha1((("u " if r["uuid"] else "s ") + sg.encode(r["hist"])).encode()).hexdigest()
        distinct.add(key)
        for c, _ in r["hist"]:
            ophist[sg.NAMES.get(c, str(c))] += 1
        a = get_ana(r)
        tot["ops executed"] += a.executed
        tot["round trips into an empty world"] += a.round_trips
        tot["round trips, >=2 records and a reference"] += a.rt_nontrivial
        tot["loads"] += a.loads
        tot["merging loads (an id of the data already held)"] += a.merges
        tot["merging loads that also create"] += a.merge_nontrivial
        tot["marks of a marked entity"] += a.remarks
        if a.panic_pos is not None:
            errkinds["panic (predicted: reference to an unmarked/dead entity)" if a.panic_predicted else "panic"] += 1
        if a.misuse:
            errkinds["MarkId with an id in use (checks skipped)"] += 1
        if nontrivial(pid, r):
            nontriv.add(key)
        v = saveload_violation(pid, r)
        if v:
            cls = finding_class(pid, r)
            if cls and (pid, cls) in known_cls:
                known_hits.setdefault(cls, r)
            else:
                violations.append((v, r))
        elif not r["eq"]:
            diverged.append(r)
    # expected buckets: a dead generator must not go unnoticed
    for code, nm in sg.NAMES.items():
        if ophist[nm] == 0:
            proof["failures"].append("generator bucket empty: " + nm)
    need = 50
    if tot["round trips into an empty world"] < need:
        proof["failures"].append("generator bucket too small: round trips into an empty world (%d)" % tot[
            "round trips into an empty world"])
    if tot["merging loads (an id of the data already held)"] < need:
        proof["failures"].append("generator bucket too small: merging loads (%d)" % tot[
            "merging loads (an id of the data already held)"])

    search_note = None
    if (proof["failures"] or diverged) and not violations:
        # failing-input search: ten times the budget, other seeds, the direct checks decide
        n_extra = 0
        for chunk in range(10):
            s2, u2, _ = gen_saveload(pid, "quick", seed + 7919 * (chunk + 1))
            for r in run_both(s2, u2):
                n_extra += 1
                v = saveload_violation(pid, r)
                if v and not ((pid, finding_class(pid, r)) in known_cls):
                    violations.append((v, r))
                    break
            if violations:
                break
        search_note = "failing-input search over %d further histories: %s" % (
            n_extra, "found" if violations else "none found")

    rc = 0
    for cls, r in known_hits.items():
        print("KNOWN-FINDING: " + known_cls[(pid, cls)]["text"])
    # the boundary id 2^64-1 cannot be written in a history (63-bit glue): a dedicated probe on the real code
    probes = {}
    probe_violation = None
    if pid == "C15":
        for rel in ([False, True] if tier == "thorough" else [False]):
            line, dup = u64_probe(rel)
            probes["release" if rel else "debug"] = line
            overflow_panic = (not rel) and line.startswith("panic")
            if overflow_panic and (pid, "u64-wrap") in known_cls and "u64-wrap" not in known_hits:
                # the build with overflow checks stops at the same addition: the defect is still in the code
                # (the duplicate id itself shows in builds without the checks: thorough tier)
                known_hits["u64-wrap"] = None
                print("KNOWN-FINDING: " + known_cls[(pid, "u64-wrap")]["text"])
            if dup:
                if (pid, "u64-wrap") in known_cls:
                    if "u64-wrap" not in known_hits:
                        known_hits["u64-wrap"] = None
                        print("KNOWN-FINDING: " + known_cls[(pid, "u64-wrap")]["text"])
                else:
                    probe_violation = "two live entities carry marker id 0 after loading data that mentions id 2^64-1 " \
                                      "(%s build): %s" % ("release" if rel else "debug", line)
    replay = None
    if probe_violation and not violations:
        replay = common.write_replay(pid, dict(property=pid, domain="saveload", what=probe_violation,
                                               probe="harness/src/bin/c15_u64_wrap.rs", outputs=probes))
        print("VIOLATION property=%s replay=%s" % (pid, replay))
        rc = 1
    elif violations:
        desc, r = violations[0]
        small = shrink_saveload(pid, r["hist"], r["uuid"])
        rs = run_saveload([small], r["uuid"], r.get("release", False))[0]
        if saveload_violation(pid, rs) is None:
            rs = r
        desc = saveload_violation(pid, rs) or desc
        replay = common.write_replay(pid, dict(property=pid, domain="saveload", what=desc, **summarize(rs),
                                               replay_cmd="./sv replay <this file>"))
        print("VIOLATION property=%s replay=%s" % (pid, replay))
        rc = 1
    elif proof["failures"]:
        replay = common.write_replay(pid, dict(property=pid, domain="saveload",
                                               what="proof obligation no longer checks",
                                               failing=proof["failures"], search=search_note))
        print("VIOLATION property=%s replay=%s no-failing-input-found" % (pid, replay))
        rc = 1
    elif diverged and p["required"] == "faithful":
        r = min(diverged, key=lambda x: len(x["hist"]))      # the shortest diverging history
        k, i, m = first_difference(r)
        replay = common.write_replay(pid, dict(
            property=pid, domain="saveload",
            what="correspondence corr:saveload/faithful no longer holds",
            first_differing_op=k, op=sg.pretty(r["hist"][k:k + 1]) if k is not None else None,
            impl_output=i, model_output=m, search=search_note, **summarize(r),
            replay_cmd="./sv replay <this file>"))
        print("VIOLATION property=%s replay=%s no-failing-input-found" % (pid, replay))
        rc = 1

    n_s = sum(1 for r in results if not r["uuid"])
    div_s = sum(1 for r in results if not r["eq"] and not r["uuid"])
    div_u = sum(1 for r in results if not r["eq"] and r["uuid"])
    pick = [results[0], results[n_s // 2], results[-1]] if results else []
    small_first = sorted((r for r in results if nontrivial(pid, r)), key=lambda r: len(r["hist"]))[:1]
    samples = [summarize(r, 1500) for r in small_first + pick][:4]
    ev = dict(
        property_id=pid, tier=tier, seed=seed, level="proof",
        coverage=dict(
            obligations=proof["obligations"] + 2,
            discharged=proof["discharged"] + (0 if div_s else 1) + (0 if div_u else 1),
            checker_cmd="make -C coq theories/%s.vo (coqc 8.16.1, full .vo) + Print Assumptions + ./sv check %s" % (
                p["module"].replace(".", "/"), pid),
            trusted_base=checks.TRUSTED_COMMON + EXTRA_TRUSTED,
            theorems=proof["theorems"], axioms=proof["axioms"], proof_failures=proof["failures"],
            proof_skipped=bool(proof.get("skipped")),
            correspondence=dict(required="corr:saveload/" + p["required"],
                                simple_histories=n_s, uuid_histories=len(results) - n_s,
                                faithful_equal=len(results) - div_s - div_u,
                                faithful_diverged_simple=div_s, faithful_diverged_uuid=div_u),
            faithful_model_diverged=bool(div_s or div_u),
            evaluations=len(results), distinct_nontrivial=len(nontriv), distinct=len(distinct),
            rule="histories: corpus + every history over a reduced alphabet up to the stated length (after two "
                 "prefixes) + generated round trips (a known source world, serialised in two formats, loaded into the "
                 "empty other world from the saved data or from a literal copy with shuffled records) + generated merges "
                 "(loads into populated worlds: own data after deletions, the other world's data, repeats, literal data "
                 "with ids above the counter / absent slots / duplicate records / references without a record) + a "
                 "general mix; each executed with SimpleMarker and with UuidMarker on the real code and on the extracted "
                 "model; direct checks of the property evaluated on the implementation transcript; non-trivial = "
                 + p["nontrivial"],
            generator=dict(gstats), measured=dict(tot), op_histogram=dict(ophist), error_histogram=dict(errkinds),
            samples=samples, exhaustive=False, search=search_note,
            known_findings=[known_cls[(pid, c)]["text"] for c in known_hits],
            u64_boundary_probe=probes,
        ),
        assumptions=["marker ids < 2^61 (u64 in the code; the model's ids are unbounded)",
                     "MarkId (allocate(e, Some(id)) by hand) is only issued with ids no live entity holds",
                     "handles passed to the world were returned by it (the harness never forges handles)",
                     "worlds of at most 60 entities, three component types (VecStorage, DenseVecStorage, HashMapStorage)"],
        wall_s=round(time.time() - t0, 2), violations=len(violations),
    )
    common.write_evidence(pid, ev)
    common.cleanup_run_dir()
    return rc


def replay_saveload(obj, path="<replay file>"):
    pid = obj["property"]
    if "encoded" not in obj:
        print(json.dumps(obj, indent=1))
        return 1
    uuid = obj.get("variant") == "uuid"
    r = run_saveload([sg.decode(obj["encoded"])], uuid)[0]
    v = saveload_violation(pid, r)
    s = summarize(r)
    s["direct_check"] = v
    print(json.dumps(s, indent=1))
    common.cleanup_run_dir()
    if v or not r["eq"]:
        print("VIOLATION property=%s replay=%s" % (pid, path))
        return 1
    print("no violation on this history")
    return 0
