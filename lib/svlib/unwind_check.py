"""Property C19 (`unwind` domain): a panicking component destructor cannot cause a double drop or a
stale read.  Proof obligations + correspondence of the fault-aware model (coq/theories/Unwind) with the
real specs storages/world under an armed destructor fault + direct checks of the property on the
implementation's transcript (no use of the model): the destruction ledger never holds a uid twice, no
lookup / join / slice returns a uid destroyed earlier, nothing but the armed fault panics, the process
does not abort."""
import collections
import hashlib
import json
import os
import random
import subprocess
import time

from . import common
from .common import ROOT, log

import unwind_gen as ug

DEFAULT_UID = 1 << 40


def parse_tr(line):
    line = line.strip()
    if not line:
        return []
    return [[int(x) for x in part.split()] for part in line.split("|")]


# ------------------------------------------------------------------ execution

def run_harness(exe, hists, timeout=3600):
    """one transcript line per history; a history that kills the process (abort on a second panic,
    a signal) yields None.  The harness flushes after every history, so the lines printed before a
    crash are kept and the run is resumed after the crashing history."""
    d = common.run_dir()
    out, start, nfile = [], 0, 0
    while start < len(hists):
        hf = os.path.join(d, "uw_h%d.txt" % nfile)
        nfile += 1
        with open(hf, "w") as f:
            for h in hists[start:]:
                f.write(ug.encode(h) + "\n")
        try:
            p = subprocess.run([exe, "unwind", hf], stdout=subprocess.PIPE, stderr=subprocess.DEVNULL, text=True,
                               timeout=timeout)
            lines = p.stdout.split("\n")
            rc = p.returncode
        except subprocess.TimeoutExpired as e:
            lines = (e.stdout or b"").decode(errors="replace").split("\n") if isinstance(e.stdout, bytes) else \
                (e.stdout or "").split("\n")
            rc = -999
        if lines and lines[-1] == "":
            lines.pop()
        want = len(hists) - start
        if len(lines) >= want:
            out.extend(lines[:want])
            break
        # every printed line is a complete history (the harness prints and flushes one line per history)
        out.extend(lines)
        out.append(None)
        log("harness died (rc=%s) on history %d" % (rc, start + len(lines)))
        start += len(lines) + 1
    return out


def run_unwind(hists, release=False, timeout=3600):
    """execute histories on the implementation, then the extracted model along the observed transcripts"""
    if not hists:
        return []
    exe = common.build_harness(release)
    drv = common.build_ocaml()
    d = common.run_dir()
    impl_lines = run_harness(exe, hists, timeout)
    hf = os.path.join(d, "uw_hist.txt")
    tf = os.path.join(d, "uw_impl.txt")
    with open(hf, "w") as f:
        for h in hists:
            f.write(ug.encode(h) + "\n")
    with open(tf, "w") as f:
        for ln in impl_lines:
            f.write((ln if ln is not None else "9") + "\n")
    p = subprocess.run([drv, "unwind", hf, tf], stdout=subprocess.PIPE, text=True, timeout=timeout,
                       preexec_fn=common.unlimit_stack)
    if p.returncode != 0:
        raise RuntimeError("model driver failed (rc=%d)" % p.returncode)
    lines = p.stdout.split("\n")
    res = []
    for k, h in enumerate(hists):
        v = lines[2 * k + 1].split()
        assert v[0] == "V", v
        crashed = impl_lines[k] is None
        r = dict(hist=h, impl=[] if crashed else parse_tr(impl_lines[k]), model=parse_tr(lines[2 * k]),
                 crashed=crashed, eq=(not crashed) and v[1] == "1", first_diff=int(v[3]))
        r["direct"] = direct_check(h, r["impl"], crashed)
        res.append(r)
    return res


# ------------------------------------------------------------------ the property, on the implementation's transcript alone

def special(u):
    return u == 0 or u == DEFAULT_UID


def tok_uids_pairs(xs):
    return [xs[i] for i in range(0, len(xs) - 1, 2)]


def observed_uids(code, out):
    """the uids a lookup / join / slice view hands out"""
    if not out:
        return []
    if code == ug.GET and out[0] == 12 and len(out) >= 4 and out[1] == 1:
        return [out[2]]
    if code == ug.GET_ALL and out[0] == 22:
        us, i = [], 2
        while i < len(out):
            if out[i] == 1:
                us.append(out[i + 1])
                i += 3
            else:
                i += 1
        return us
    if code in (ug.JOIN, ug.CS_DUMP) and out[0] == 21:
        return [out[i + 1] for i in range(2, len(out) - 2, 3)]
    if code == ug.SLICE and out[0] == 17 and len(out) >= 2:
        if out[1] == 1:
            return tok_uids_pairs(out[4:])
        if out[1] == 2:
            return tok_uids_pairs(out[3:])
    return []


def handed_back_uids(code, out):
    """the uid of a value the storage hands back to the caller (remove, insert over a component)"""
    if code == ug.REMOVE and out[:2] == [12, 1]:
        return [out[2]]
    if code == ug.INSERT and out[:2] == [11, 1]:
        return [out[2]]
    return []


def direct_check(h, impl, crashed):
    """list of (kind, description, op index) violations of C19 visible in the implementation's own transcript"""
    bad = []
    if crashed:
        return [("crash", "the harness process died (a second panic while unwinding aborts; or a signal)", len(h))]
    ledger = {}            # uid -> index of the op that destroyed it
    armed = 0
    created_unit = destroyed_unit = 0
    pos = 0
    ended = False
    for i, (code, args) in enumerate(h):
        if 2 * pos + 1 >= len(impl):
            bad.append(("truncated", "the transcript ends before operation %d" % i, i))
            return bad
        out, eff = impl[2 * pos], impl[2 * pos + 1]
        pos += 1
        if eff[:1] != [10] or len(eff) < 3:
            bad.append(("format", "malformed effects entry at operation %d" % i, i))
            return bad
        panicked, drops = eff[1], eff[3:]
        if code == ug.ARM:
            armed = max(0, args[0]) if args else 0
            continue
        this_armed, armed = (armed if code in ug.DESTROYING else 0), 0
        if code == ug.CREATE:
            created_unit += sum(1 for j in range(0, len(args) - 2, 3) if args[j] == 5) if out[:1] == [1] else 0
        if code == ug.INSERT and args and args[0] == 5 and out[:1] != [8]:
            created_unit += 1
        for u in observed_uids(code, out) + handed_back_uids(code, out):
            if not special(u) and u in ledger:
                bad.append(("stale-read", "%s at operation %d returns uid %d, destroyed by operation %d"
                            % (ug.NAMES.get(code, code), i, u, ledger[u]), i))
        for u in drops:
            if u == 0:
                destroyed_unit += 1
            if special(u):
                continue
            if u in ledger:
                bad.append(("double-drop", "uid %d destroyed by operation %d and again by operation %d"
                            % (u, ledger[u], i), i))
            else:
                ledger[u] = i
        if panicked == 2:
            bad.append(("panic", "operation %d (%s) panicked, and not by the armed destructor fault"
                        % (i, ug.NAMES.get(code, code)), i))
        elif panicked == 1 and this_armed == 0:
            bad.append(("panic", "operation %d (%s) panicked although no fault was armed" % (i, ug.NAMES.get(code, code)), i))
        elif panicked == 1 and len(drops) < this_armed:
            bad.append(("panic", "operation %d panicked before the armed destructor call" % i, i))
        if panicked == 0 and out[:1] == [29]:
            bad.append(("format", "operation %d reports no result without a panic" % i, i))
        if code in ug.OBSERVING and (panicked != 0 or out[:1] == [29]):
            bad.append(("unusable", "observation %d (%s) failed after a caught panic" % (i, ug.NAMES.get(code, code)), i))
        if code == ug.DROP_WORLD and args == []:
            ended = True
            break
    if 2 * pos >= len(impl) or impl[2 * pos][:1] != [90]:
        bad.append(("truncated", "no final teardown entry", len(h)))
        return bad
    fin = impl[2 * pos]
    if fin[1] != 0:
        bad.append(("panic", "the final teardown (drop of the world, no fault armed) panicked", len(h)))
    for u in fin[3:]:
        if u == 0:
            destroyed_unit += 1
        if special(u):
            continue
        if u in ledger:
            bad.append(("double-drop", "uid %d destroyed by operation %d and again by the final teardown" % (u, ledger[u]),
                        len(h)))
        else:
            ledger[u] = len(h)
    if destroyed_unit > created_unit:
        bad.append(("double-drop", "%d unit values destroyed, only %d created" % (destroyed_unit, created_unit), len(h)))
    return bad


# ------------------------------------------------------------------ statistics helpers

def op_effects(r):
    """[(op index, code, panicked, ndrops)] of a result"""
    out, pos = [], 0
    for i, (code, _) in enumerate(r["hist"]):
        if 2 * pos + 1 >= len(r["impl"]):
            break
        eff = r["impl"][2 * pos + 1]
        pos += 1
        if len(eff) >= 3:
            out.append((i, code, eff[1], eff[2]))
        if code == ug.DROP_WORLD:
            break
    return out


def drops_per_op(r):
    d = [0] * len(r["hist"])
    for i, _, _, n in op_effects(r):
        d[i] = n
    return d


def nontrivial(r):
    """an armed fault really fired after at least one earlier destructor call of the same operation or with
    further elements left (a mid-way panic), and a later destroying operation ran on the surviving world"""
    effs = op_effects(r)
    fired = [(i, n) for i, code, p, n in effs if p == 1]
    if not fired:
        return False
    i0 = fired[0][0]
    later = any(i > i0 and code in ug.DESTROYING for i, code, _, _ in effs)
    return later or len(effs) > i0 + 3


def summarize(r):
    return dict(history=ug.pretty(r["hist"]), encoded=ug.encode(r["hist"]),
                impl=" | ".join(" ".join(map(str, o)) for o in r["impl"]) if not r["crashed"] else "<process died>",
                model=" | ".join(" ".join(map(str, o)) for o in r["model"]),
                model_equal=r["eq"], first_diff=r["first_diff"],
                direct=[dict(kind=k, what=w, op=i) for k, w, i in r["direct"]])


# ------------------------------------------------------------------ generation (two stages)

def gen_histories(tier, seed, scale=1):
    rng = random.Random(seed * 1000003 + sum(map(ord, "C19")))
    stats = collections.Counter()
    bases = []
    cdir = os.path.join(ROOT, "gen", "corpus", "C19")
    corpus = []
    if os.path.isdir(cdir):
        for f in sorted(os.listdir(cdir)):
            for line in open(os.path.join(cdir, f)):
                if line.strip() and not line.startswith("#"):
                    corpus.append(ug.decode(line))
                    stats["corpus"] += 1
    for _ in range(scale):
        bases += ug.base_scenarios(rng, tier)
    stats["base scenarios (no fault)"] = len(bases)
    base_h = [h for _, h, _ in bases]
    res0 = run_unwind(base_h)
    variants, labels = [], []
    cap = 8 if tier == "quick" else 24
    for (label, h, tpos), r in zip(bases, res0):
        dpo = drops_per_op(r)
        cross = label.startswith("cross/")
        for pos, k, n, hv in ug.fault_variants(h, dpo, cap=cap, only=(tpos if tier == "quick" and not cross else None)):
            variants.append(hv)
            where = "first" if k == 1 and n >= 1 else ("beyond" if k == n + 1 else ("last" if k == n else "middle"))
            stats["fault position: " + where] += 1
            labels.append(label)
    res1 = run_unwind(variants)
    # a second fault, armed before a later destroying operation of a history whose first fault really fired
    second = []
    budget = (400 if tier == "quick" else 6000) * scale
    cand = [r for r in res1 if any(p == 1 for _, _, p, _ in op_effects(r))]
    rng.shuffle(cand)
    for r in cand:
        if len(second) >= budget:
            break
        effs = op_effects(r)
        i0 = [i for i, _, p, _ in effs if p == 1][0]
        later = [(i, n) for i, code, p, n in effs if i > i0 and code in ug.DESTROYING and n >= 1]
        if not later:
            continue
        i, n = rng.choice(later)
        for k in sorted(set([1, n, rng.randint(1, n)])):
            second.append(ug.with_fault(r["hist"], i, k))
            stats["second fault after a caught panic"] += 1
    res2 = run_unwind(second)
    res_c = run_unwind(corpus)
    return res_c + res0 + res1 + res2, stats


# ------------------------------------------------------------------ shrinking

def shrink(h, kinds):
    """delta debugging on the operations, keeping a direct violation of one of `kinds`"""
    def fails(x):
        if not x:
            return False
        r = run_unwind([x], timeout=300)[0]
        return any(k in kinds for k, _, _ in r["direct"])

    cur = list(h)
    budget = 250
    # chunks first, then single operations
    n = 2
    while len(cur) >= 2 and budget > 0:
        chunk = max(1, len(cur) // n)
        removed = False
        i = 0
        while i < len(cur) and budget > 0:
            cand = cur[:i] + cur[i + chunk:]
            budget -= 1
            if cand and fails(cand):
                cur, removed = cand, True
            else:
                i += chunk
        if chunk == 1 and not removed:
            break
        n = max(n - 1, 2) if removed else min(n * 2, len(cur))
        if chunk == 1 and removed:
            continue
    # smaller fault positions, fewer components per entity
    for i, (code, a) in enumerate(cur):
        if code == ug.ARM and budget > 0:
            for k in range(1, a[0]):
                cand = cur[:i] + [(ug.ARM, [k])] + cur[i + 1:]
                budget -= 1
                if fails(cand):
                    cur = cand
                    break
        if code == ug.CREATE and len(a) > 3 and budget > 0:
            j = 0
            while j + 3 <= len(cur[i][1]) and budget > 0:
                a2 = cur[i][1][:j] + cur[i][1][j + 3:]
                cand = cur[:i] + [(ug.CREATE, a2)] + cur[i + 1:]
                budget -= 1
                if fails(cand):
                    cur = cand
                else:
                    j += 3
    return cur


# ------------------------------------------------------------------ the check

TRUSTED = [
    "modelled not verified: what std does while unwinding - the drop glue of a slice (Vec::clear) and BTreeMap's "
    "IntoIter guard go on destroying the remaining elements, hashbrown's clear/drop leak them and reset the table, "
    "`*place = value` writes the new value also when the old one's destructor panics - tied to the real std by the "
    "correspondence check (destruction order and panic point compared exactly on every history)",
    "unspecified orders (HashMap iteration, the order in which a dropped shred::World destroys its resources) are "
    "parameters of the model (theorems: for every order); the check reads them off the implementation's transcript",
    "the fault plan: harness/src/comps.rs panics in the k-th destructor call after logging it, never while already "
    "panicking; a destructor that panics while unwinding aborts the process (outside the property)",
]


def check_unwind(pid, tier, seed):
    from . import checks
    t0 = time.time()
    p = checks.PROPS[pid]
    proof = checks.proof_obligations(pid, tier)
    results, gstats = gen_histories(tier, seed)
    if tier == "thorough":
        sample = [r["hist"] for r in results if any(pp == 1 for _, _, pp, _ in op_effects(r))][:3000]
        results = results + run_unwind(sample, release=True)
        gstats["re-run on a release build"] = len(sample)

    violations = [r for r in results if r["direct"]]
    div = [r for r in results if not r["direct"] and not r["eq"]]

    distinct, nontriv = set(), set()
    hist = collections.Counter()
    fired = collections.Counter()
    for r in results:
        key = hashlib.sha1(ug.encode(r["hist"]).encode()).hexdigest()
        distinct.add(key)
        if nontrivial(r):
            nontriv.add(key)
        regs = [a[0] for c, a in r["hist"] if c == ug.REG]
        prev_arm = 0
        for i, (code, a) in enumerate(r["hist"]):
            hist[ug.NAMES.get(code, str(code))] += 1
            if code == ug.REG and a and 0 <= a[0] < 16:
                hist["storage:" + ug.SID_NAMES[a[0]]] += 1
        for i, code, pp, n in op_effects(r):
            if pp == 1:
                fired["panicked in " + ug.NAMES.get(code, str(code))] += 1
                a = r["hist"][i][1]
                if code in (ug.CLEAR, ug.DROP_STORAGE, ug.REMOVE, ug.INSERT) and a and 0 <= a[0] < 16:
                    fired["panicked in %s of %s" % (ug.NAMES[code], ug.kind_of(a[0]))] += 1
    for need in [ug.NAMES[c] for c in sorted(ug.DESTROYING)] + ["arm_fault", "get_all", "join", "slice", "mask",
                                                                   "changeset.join"] + \
            ["storage:" + s for s in ug.SID_NAMES]:
        if hist[need] == 0:
            proof["failures"].append("generator bucket empty: " + need)
    for need in ["panicked in " + ug.NAMES[c] for c in sorted(ug.DESTROYING)] + \
            ["panicked in clear of " + k for k in ug.KINDS] + ["panicked in drop_storage of " + k for k in ug.KINDS]:
        if fired[need] == 0 and not violations:
            proof["failures"].append("no history in which the armed fault " + need)

    search_note = None
    if (proof["failures"] or div) and not violations:
        # failing-input search: ten times the budget with other seeds, and every fault position of the diverging bases
        extra, _ = gen_histories("quick", seed + 7919, scale=4 if tier == "quick" else 10)
        bases = [ug.strip_faults(r["hist"]) for r in div[:60]]
        more = []
        if bases:
            r0 = run_unwind(bases)
            for r in r0:
                for _, _, _, hv in ug.fault_variants(r["hist"], drops_per_op(r), cap=40):
                    more.append(hv)
            extra += run_unwind(more[:20000])
        found = [r for r in extra if r["direct"]]
        violations += found
        search_note = "failing-input search over %d further histories: %s" % (len(extra), "found" if found else "none found")

    # deferred work queued after a caught destructor panic (implementation alone)
    lz = lazy_after_fault_histories(tier, seed)
    lz_lines = run_harness(common.build_harness(False), [h for h, _ in lz])
    lz_bad, lz_fired = [], 0
    for (h, expect), line in zip(lz, lz_lines):
        v = lazy_after_fault_violation(h, expect, line)
        if v:
            lz_bad.append((v, h, expect, line))
        if line is not None and any(e[:2] == [10, 1] for e in parse_tr(line)):
            lz_fired += 1

    rc, replay = 0, None
    if lz_bad and not violations:
        v, h, expect, line = min(lz_bad, key=lambda t: len(t[1]))
        replay = common.write_replay(pid, dict(property=pid, domain="unwind-lazy", history=pretty_lazy(h),
                                               encoded=ug.encode(h), expect=[list(e[:1]) + list(e[1]) + [e[2]] for e in expect],
                                               transcript=line, what=v, violating_histories=len(lz_bad),
                                               replay_cmd="./sv replay <this file>"))
        print("VIOLATION property=%s replay=%s" % (pid, replay))
        rc = 1
    elif violations:
        order = {"double-drop": 0, "stale-read": 1, "crash": 2, "panic": 3, "unusable": 4}
        # a repeated real uid first, then stale reads, crashes; the count of unit values last among the double drops
        violations.sort(key=lambda r: (order.get(r["direct"][0][0], 9), "unit values" in r["direct"][0][1], len(r["hist"])))
        r = violations[0]
        kinds = {r["direct"][0][0]}
        small = shrink(r["hist"], kinds)
        rs = run_unwind([small])[0]
        if not any(k in kinds for k, _, _ in rs["direct"]):
            rs = r
        further, seen = [], {rs["direct"][0][0]}
        for r2 in violations:
            k2 = r2["direct"][0][0]
            if k2 not in seen and len(further) < 3:
                seen.add(k2)
                further.append(summarize(r2))
        replay = common.write_replay(pid, dict(property=pid, domain="unwind", what=rs["direct"][0][1],
                                               kind=rs["direct"][0][0], **summarize(rs),
                                               violating_histories=len(violations),
                                               further_violations_not_shrunk=further,
                                               replay_cmd="./sv replay <this file>"))
        print("VIOLATION property=%s replay=%s" % (pid, replay))
        rc = 1
    elif proof["failures"]:
        replay = common.write_replay(pid, dict(property=pid, domain="unwind", what="proof obligation no longer checks",
                                               failing=proof["failures"], search=search_note))
        print("VIOLATION property=%s replay=%s no-failing-input-found" % (pid, replay))
        rc = 1
    elif div:
        r = min(div, key=lambda x: len(x["hist"]))
        replay = common.write_replay(pid, dict(property=pid, domain="unwind",
                                               what="correspondence corr:unwind/faithful no longer holds: the implementation's "
                                                    "transcript differs from the model's at entry %d (no double drop, stale "
                                                    "read or crash was found)" % r["first_diff"],
                                               diverging_histories=len(div), search=search_note, **summarize(r)))
        print("VIOLATION property=%s replay=%s no-failing-input-found" % (pid, replay))
        rc = 1

    with_panic = [r for r in results if any(pp == 1 for _, _, pp, _ in op_effects(r))]
    samples = [summarize(r) for r in (results[:1] + with_panic[:1] + with_panic[len(with_panic) // 2:len(with_panic) // 2 + 1]
                                      + with_panic[-1:])]
    corr_ok = not div and all(r["eq"] or r["crashed"] for r in violations) and not any(
        not r["eq"] for r in violations)
    direct_ok = not violations
    ev = dict(
        property_id=pid, tier=tier, seed=seed, level="proof",
        coverage=dict(
            obligations=proof["obligations"] + 2,
            discharged=proof["discharged"] + (1 if corr_ok else 0) + (1 if direct_ok else 0),
            checker_cmd="make -C coq theories/%s.vo (coqc 8.16.1, full .vo) + Print Assumptions + ./sv check %s" % (
                p["module"].replace(".", "/"), pid),
            trusted_base=checks.TRUSTED_COMMON + TRUSTED,
            theorems=proof["theorems"], axioms=proof["axioms"], proof_failures=proof["failures"],
            correspondence=dict(required="corr:unwind/faithful",
                                equal=sum(1 for r in results if r["eq"]),
                                differs=sum(1 for r in results if not r["eq"] and not r["crashed"]),
                                crashed=sum(1 for r in results if r["crashed"]),
                                histories_with_a_caught_panic=len(with_panic),
                                caught_panics=sum(fired[k] for k in fired if k.count(" of ") == 0)),
            direct_checks=dict(double_drop=sum(1 for r in results for k, _, _ in r["direct"] if k == "double-drop"),
                               stale_read=sum(1 for r in results for k, _, _ in r["direct"] if k == "stale-read"),
                               crash=sum(1 for r in results if r["crashed"]),
                               other_panic=sum(1 for r in results for k, _, _ in r["direct"] if k == "panic"),
                               unusable=sum(1 for r in results for k, _, _ in r["direct"] if k == "unusable")),
            faithful_model_diverged=bool(div),
            deferred_work_after_a_caught_panic=dict(
                histories=len(lz), with_the_panic_inside_the_maintain=lz_fired, disagreements=len(lz_bad),
                what="implementation alone: a component destructor panics inside a deferred removal / overwriting "
                     "insertion during World::maintain (caught); deferred insertions and removals queued afterwards "
                     "must be performed by the next maintain, for every storage id"),
            evaluations=len(results) + len(lz), distinct_nontrivial=len(nontriv), distinct=len(distinct),
            rule="histories: every storage id (16) x every destroying operation (clear, remove, insert over / into a "
                 "vacant cell / for a dead entity, delete_entity, delete_entities (also failing part-way), delete_all, "
                 "entities.delete + maintain, drop of the MaskedStorage, drop of the World) x content shapes, several "
                 "storages per world; run once without fault to count the destructor calls n of every destroying "
                 "operation, then once per fault position 1..n and n+1 (thinned above the cap), then a second fault "
                 "before a later operation of histories whose first fault fired; each executed on the real World under "
                 "catch_unwind and on the extracted model; non-trivial = the armed fault really fired and a later "
                 "destroying operation or at least two later operations ran on the surviving world",
            generator=dict(gstats), op_histogram=dict(hist), panic_histogram=dict(fired),
            samples=samples, exhaustive=False, search=search_note,
        ),
        assumptions=["component values created by a history carry pairwise distinct uids (the generator numbers them); "
                     "the unit value of the null storage (uid 0) and Default::default() values (uid 2^40) are counted, "
                     "not identified",
                     "at most one destructor fault per operation: a destructor that panics while another panic "
                     "unwinds aborts the process by the language's rules",
                     "handles passed to the world were returned by it"],
        wall_s=round(time.time() - t0, 2), violations=len(violations) + len(lz_bad),
    )
    common.write_evidence(pid, ev)
    common.cleanup_run_dir()
    return rc


def pretty_lazy(h):
    names = dict(ug.NAMES)
    names.update({92: "lazy.remove", 93: "lazy.insert"})
    return "; ".join("%s(%s)" % (names.get(c, "op%d" % c), ",".join(str(x) for x in p)) for c, p in h)


def replay(obj, path):
    pid = obj["property"]
    if "encoded" not in obj:
        print(json.dumps(obj, indent=1))
        return 1
    h = ug.decode(obj["encoded"])
    r = run_unwind([h])[0]
    print(json.dumps(summarize(r), indent=1))
    common.cleanup_run_dir()
    if r["direct"]:
        print("VIOLATION property=%s replay=%s" % (pid, path))
        return 1
    if not r["eq"]:
        print("VIOLATION property=%s replay=%s no-failing-input-found" % (pid, path))
        return 1
    print("no violation on this history")
    return 0


# ------------------------------------------------------------------ C12 under destructor faults (implementation alone)

DUMP_EVENTS = 91


def fault_event_histories(tier, seed):
    """scenarios on the change-tracking storages without bulk clears / storage drops (those report nothing), a dump of
    mask and events of every tracked storage at the end; fault-free first, then with the fault armed at every position
    of the destroying operation the scenario is about"""
    rng = random.Random(seed * 7907 + 12)
    # removals and deletions only: a destructor that panics *inside an insertion* (the filler of a default-filled slot,
    # a value swapped out) is outside what C12 speaks about - there the unchanged code reports an insertion that the
    # panic then undoes
    kinds = ["remove", "delete", "delete_many", "delete_many_failing", "delete_all", "maintain"]
    bases = []
    for target in range(6, 16):
        ks = kinds if tier != "quick" else rng.sample(kinds, 4)
        for kind in ks:
            h, tpos = ug.scenario(rng, target, kind, rng.choice(["dense", "sparse"]), n_others=rng.randint(0, 2))
            keep = [(c, p) for (c, p) in h[:tpos + 1]]
            for c, p in h[tpos + 1:]:
                if c in (ug.CLEAR, ug.DROP_STORAGE, ug.DROP_WORLD):
                    continue
                keep.append((c, p))
            regs = sorted({p[0] for c, p in keep if c == ug.REG and 6 <= p[0] <= 15})
            keep += [(DUMP_EVENTS, [s]) for s in regs]
            bases.append((keep, tpos))
    exe = common.build_harness(False)
    lines0 = run_harness(exe, [h for h, _ in bases])
    out = []
    for (h, tpos), ln in zip(bases, lines0):
        out.append(("no fault", h, ln))
        if ln is None:
            continue
        r = dict(hist=h, impl=parse_tr(ln))
        variants = [hv for _, _, _, hv in ug.fault_variants(h, drops_per_op(r), cap=8 if tier == "quick" else 24, only=tpos)]
        for hv, l2 in zip(variants, run_harness(exe, variants)):
            out.append(("fault", hv, l2))
    return out


def fault_event_violation(h, line):
    """C12 on one transcript: replaying the Inserted / Removed events of a tracked storage over the empty membership
    gives the mask the storage shows - also when a component destructor panicked in between"""
    if line is None:
        return "the harness died"
    impl = parse_tr(line)
    pos = 0
    for code, p in h:
        if 2 * pos >= len(impl):
            break
        out = impl[2 * pos]
        pos += 1
        if code == DUMP_EVENTS and out and out[0] == 91:
            n = out[1]
            mask = set(out[2:2 + n])
            ne = out[2 + n]
            if ne < 0:
                continue
            evs = out[3 + n:3 + n + 2 * ne]
            have = set()
            for k in range(0, len(evs), 2):
                kind, idx = evs[k], evs[k + 1]
                if kind == 0:
                    have.add(idx)
                elif kind == 2:
                    have.discard(idx)
            if have != mask:
                return ("storage %d: the events delivered (%s) replay to the members %s but the storage holds %s" % (
                    p[0], [("Inserted", "Modified", "Removed")[evs[k]] + "(%d)" % evs[k + 1] for k in range(0, len(evs), 2)],
                    sorted(have), sorted(mask)))
    return None


# ------------------------------------------------------------------ deferred work after a caught destructor panic
#
# Implementation alone (the unwinding model has no deferred operations): a component destructor panics inside a
# deferred removal / overwriting insertion while World::maintain works off the queue; the panic is caught; deferred
# work queued *afterwards* must still be performed by the next maintain (the world stays usable).  What was still
# queued behind the panicking action at that moment is discarded by the unchanged code (DESIGN 6) and is not asked for.

LAZY_REMOVE, LAZY_INSERT = 92, 93


def lazy_after_fault_histories(tier, seed):
    rng = random.Random(seed * 6151 + 19)
    out = []
    n = 64 if tier == "quick" else 640
    for k in range(n):
        sid = k % 16
        others = rng.sample([s for s in range(16) if s != sid], rng.randint(0, 2))
        h = [(ug.REG, [s]) for s in [sid] + others]
        uid = [100]

        def tok():
            uid[0] += 1
            return uid[0], rng.randint(-50, 50)
        u0, v0 = tok()
        h.append((ug.CREATE, [sid, u0, v0]))                     # handle 0: owns the value whose destructor panics
        h.append((ug.CREATE, []))                                # handle 1: bare
        u2, v2 = tok()
        h.append((ug.CREATE, [sid, u2, v2]))                     # handle 2: owns a value to be removed later
        if rng.random() < 0.5:
            h.append((LAZY_REMOVE, [sid, 0]))
        else:
            u, v = tok()
            h.append((LAZY_INSERT, [sid, 0, u, v]))              # overwrites: the old value is destroyed
        h.append((ug.ARM, [1]))                                  # (a plan applies to the next operation only)
        h.append((ug.MAINTAIN, []))                              # the armed destructor panics in here
        expect = []
        u1, v1 = tok()
        h.append((LAZY_INSERT, [sid, 1, u1, v1]))
        h.append((LAZY_REMOVE, [sid, 2]))
        o = rng.choice(others) if others else None
        if o is not None:
            uo, vo = tok()
            h.append((LAZY_INSERT, [o, 1, uo, vo]))
        h.append((ug.MAINTAIN, []))
        expect.append((len(h), (sid, 1), True))
        h.append((ug.GET, [sid, 1]))
        expect.append((len(h), (sid, 2), False))
        h.append((ug.GET, [sid, 2]))
        if o is not None:
            expect.append((len(h), (o, 1), True))
            h.append((ug.GET, [o, 1]))
        out.append((h, expect))
    return out


def lazy_after_fault_violation(h, expect, line):
    if line is None:
        return "the harness died"
    impl = parse_tr(line)
    fired = False
    for pos, (code, p) in enumerate(h):
        if code == ug.MAINTAIN and 2 * pos + 1 < len(impl) and impl[2 * pos + 1][:2] == [10, 1]:
            fired = True
            break
    if not fired:
        return None                     # the armed destructor did not run inside the maintain: nothing to ask
    for pos, (sid, hd), present in expect:
        if 2 * pos >= len(impl):
            return "the transcript ends before operation %d" % pos
        out = impl[2 * pos]
        if sid in (5,) and present:
            ok = out[:2] == [12, 1]     # the null storage holds unit values
        else:
            ok = (out[:2] == [12, 1]) if present else (out[:2] == [12, 0])
        if not ok:
            return ("after a component destructor panicked inside a deferred operation (caught), deferred work queued "
                    "afterwards was not performed by the next maintain: storage %d, handle %d is %s, expected %s" % (
                        sid, hd, "present" if out[:2] == [12, 1] else "absent", "present" if present else "absent"))
    return None
