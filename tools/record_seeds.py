#!/usr/bin/env python3
"""Copies confirmed seeded changes from /tmp/seed/out_cNN/k into seeded/CNN-k with a meta.json.
usage: record_seeds.py CNN k 'C03=how;C04=how' ['note']"""
import json, os, shutil, sys
pid, k, det = sys.argv[1], sys.argv[2], sys.argv[3]
note = (sys.argv[4] or None) if len(sys.argv) > 4 else None
src = sys.argv[5] if len(sys.argv) > 5 else "/tmp/seed/out_%s/%s" % (pid.lower(), k)
dst = "/verif/seeded/%s-%s" % (pid, k)
os.makedirs(dst, exist_ok=True)
for f in os.listdir(src):
    if f in ("patch.diff", "demo.rs", "notes.md", "confirm.json"):
        shutil.copy(os.path.join(src, f), dst)
detected = dict(x.split("=", 1) for x in det.split(";") if x)
meta = {
    "breaks_property": pid,
    "source": "independent sub-agent given only the property text and a scratch worktree of /repo",
    "summary_file": "notes.md",
    "confirmed": "patch applies to /repo HEAD (git apply --check); author ran: builds with default and full "
                 "features, 77 baseline tests pass, demo.rs fails with / passes without the patch; re-run here "
                 "by tools/seedtest.sh (scratch worktree of /repo + VERIF_REPO, /verif snapshot)",
    "ran": "tools/seedtest.sh seeded/%s-%s/patch.diff %s (quick tier)" % (pid, k, " ".join(detected)),
    "detected_by": detected,
    "confirmed_here": "tools/confirm_seed.sh (scratch worktree of /repo): patch applies, builds with default and full "
                      "features, the 77 baseline tests pass, demo.rs fails with the patch and passes without - see "
                      "confirm.json",
}
if note:
    meta["note"] = note
json.dump(meta, open(os.path.join(dst, "meta.json"), "w"), indent=1)
print(dst)
