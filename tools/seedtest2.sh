#!/bin/bash
# usage: tools/seedtest2.sh <patch.diff> Cnn [Cmm ...]
# Like seedtest.sh, but starts from a cached, fully built copy of the committed HEAD of /verif
# (/var/tmp/svbase-<commit>), so that only the harness is rebuilt against the patched sources.
set -u
patch=$(realpath "$1"); shift
h=$(git -C /verif rev-parse --short HEAD)
base=/var/tmp/svbase-$h
(
  flock 9
  if [ ! -f "$base/.built" ]; then
    find /var/tmp -maxdepth 1 -name "svbase-*" -mmin +90 -exec rm -rf {} +
    mkdir -p "$base"
    git -C /verif archive HEAD | tar -x -C "$base"
    (cd "$base" && ./sv setup >/dev/null 2>&1) && touch "$base/.built"
  fi
) 9>/var/tmp/svbase.lock
[ -f "$base/.built" ] || { echo "BASE BUILD FAILED"; exit 2; }
wt=/var/tmp/seedtest-$$
snap=/var/tmp/svsnap-$$
git -C /repo worktree add -q "$wt" HEAD || exit 2
if ! git -C "$wt" apply "$patch"; then echo "PATCH DOES NOT APPLY"; git -C /repo worktree remove --force "$wt"; exit 2; fi
mkdir -p "$snap"
rsync -a "$base"/ "$snap"/
# seed the cargo cache of the patched build with the dependencies already compiled for /repo
tag=$(echo "$wt" | sed 's/[^A-Za-z0-9]/_/g')
[ -d "$snap/.cache/cargo" ] && cp -a "$snap/.cache/cargo" "$snap/.cache/cargo$tag"
cd "$snap"
for pid in "$@"; do
  out=$(VERIF_REPO="$wt" ./sv check "$pid" --tier quick 2>/dev/null); rc=$?
  echo "== $pid rc=$rc $(echo "$out" | grep -E 'VIOLATION|KNOWN' | head -3 | cut -c1-200)"
  for f in $(echo "$out" | grep -o 'replay=[^ ]*' | sed 's/replay=//'); do
    [ -f "$snap/$f" ] && python3 -c "import json,sys; d=json.load(open('$snap/$f')); print('   what:', str(d.get('what'))[:400]); print('   hist:', (d.get('history') or '')[:300]); print('   fail:', str(d.get('failing'))[:300])"
  done
done
cd /
rm -rf "$snap"
git -C /repo worktree remove --force "$wt"
