#!/usr/bin/env python3
"""Updates the theorem counts `| Cnn [k] |` of the per-property table in DESIGN.md from coq/theories/Props/Cnn.v."""
import os, re
ROOT = os.path.dirname(os.path.dirname(os.path.abspath(__file__)))
p = os.path.join(ROOT, "DESIGN.md")
s = open(p).read()
for i in range(1, 21):
    pid = "C%02d" % i
    f = os.path.join(ROOT, "coq/theories/Props/%s.v" % pid)
    if os.path.exists(f):
        n = len(re.findall(r"^Theorem ", open(f).read(), flags=re.M))
        s = re.sub(r"\| %s \[\d+\] \|" % pid, "| %s [%d] |" % (pid, n), s)
open(p, "w").write(s)
