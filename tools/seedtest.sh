#!/bin/bash
# usage: tools/seedtest.sh <patch.diff> Cnn [Cmm ...]
# Applies the patch to a scratch worktree of /repo, runs the quick checks of a SNAPSHOT of /verif
# (the committed HEAD, so that concurrent edits of /verif do not disturb the run) against it, cleans up.
set -u
patch=$(realpath "$1"); shift
wt=/var/tmp/seedtest-$$
snap=/var/tmp/svsnap-$$
git -C /repo worktree add -q "$wt" HEAD || exit 2
if ! git -C "$wt" apply "$patch"; then echo "PATCH DOES NOT APPLY"; git -C /repo worktree remove --force "$wt"; exit 2; fi
mkdir -p "$snap"
# the committed state of /verif (not the working tree: edits in progress must not disturb the run)
git -C /verif archive HEAD | tar -x -C "$snap"
cd "$snap"
for pid in "$@"; do
  out=$(VERIF_REPO="$wt" ./sv check "$pid" --tier quick 2>/dev/null); rc=$?
  echo "== $pid rc=$rc $(echo "$out" | grep -E 'VIOLATION|KNOWN' | head -3)"
  for f in $(echo "$out" | grep -o 'replay=[^ ]*' | sed 's/replay=//'); do
    [ -f "$snap/$f" ] && python3 -c "import json,sys; d=json.load(open('$snap/$f')); print('   what:', d.get('what')); print('   hist:', (d.get('history') or '')[:300]); print('   fail:', str(d.get('failing'))[:300])"
  done
done
cd /
rm -rf "$snap"
git -C /repo worktree remove --force "$wt"
