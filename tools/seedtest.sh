#!/bin/bash
# usage: tools/seedtest.sh <patch.diff> Cnn [Cmm ...]
# Applies the patch to a scratch worktree of /repo, runs the quick checks against it, cleans up.
set -u
patch=$(realpath "$1"); shift
wt=/var/tmp/seedtest-$$
git -C /repo worktree add -q "$wt" HEAD || exit 2
if ! git -C "$wt" apply "$patch"; then echo "PATCH DOES NOT APPLY"; git -C /repo worktree remove --force "$wt"; exit 2; fi
cd /verif
for pid in "$@"; do
  out=$(VERIF_REPO="$wt" ./sv check "$pid" --tier quick 2>/dev/null); rc=$?
  echo "== $pid rc=$rc $(echo "$out" | grep -E 'VIOLATION|KNOWN' | head -3)"
done
tag=$(echo "$wt" | sed 's/[^A-Za-z0-9]/_/g')
rm -rf "/verif/.cache/cargo$tag" "/verif/.cache/harness$tag"
git -C /repo worktree remove --force "$wt"
