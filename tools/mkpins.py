#!/usr/bin/env python3
"""Writes coq/theories/Props/Cnn_pins.v from Props/Cnn.v: one `Check (name : statement).` per theorem.
Run once when a Props file is written; the pins file is committed (a later weakening of a statement then
breaks the build).  usage: mkpins.py Cnn"""
import re, sys, os
ROOT = os.path.dirname(os.path.dirname(os.path.abspath(__file__)))
pid = sys.argv[1]
src = open(os.path.join(ROOT, "coq/theories/Props/%s.v" % pid)).read()
imports = [m.group(0) for m in re.finditer(r"^(From|Require) .*?\.$", src, flags=re.S | re.M)]
out = [l for l in imports]
out.append("From SV Require Import Props.%s." % pid)
for m in re.finditer(r"^Theorem (\w+) : (.*?)\.\nProof\.", src, flags=re.S | re.M):
    out.append("Check (%s : %s)." % (m.group(1), m.group(2)))
open(os.path.join(ROOT, "coq/theories/Props/%s_pins.v" % pid), "w").write("\n".join(out) + "\n")
print(pid, len(out) - len(imports) - 1, "pins")
