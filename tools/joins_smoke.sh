#!/bin/bash
# Smoke test of the join / restricted-storage / change-set operations (codes 80..86, JOINS_SPEC.md):
# builds the harness exactly as lib/svlib/common.py build_harness does (other target directory),
# generates N histories of every focus of gen/join_gen.py, runs them through
# `specs-harness world <file>` and fails if any output entry is the panic marker [9] or the skip
# marker [8] (the generated histories are supposed to be valid).  Prints a few sample transcripts.
#
# usage: tools/joins_smoke.sh [N=200] [seed=1]
# env:   CARGO_TARGET_DIR (default /var/tmp/wk/joins-target)
#        BASELINE_HARNESS=<binary>: additionally run old-format histories (no codes 80..86) through
#        that binary and this build and require byte-identical transcripts
set -eu
N=${1:-200}
SEED=${2:-1}
ROOT=$(cd "$(dirname "$0")/.." && pwd)
export CARGO_TARGET_DIR=${CARGO_TARGET_DIR:-/var/tmp/wk/joins-target}
export CARGO_NET_OFFLINE=true CARGO_TERM_COLOR=never
export RUSTFLAGS="--cfg specs_verif --check-cfg=cfg(specs_verif) -Awarnings"

echo "== building the harness into $CARGO_TARGET_DIR"
(cd "$ROOT/harness" && cargo build --offline --quiet)
BIN="$CARGO_TARGET_DIR/debug/specs-harness"
WORK="$CARGO_TARGET_DIR/joins-smoke"
mkdir -p "$WORK"

echo "== generating $N histories per focus (seed $SEED)"
python3 - "$ROOT" "$WORK" "$N" "$SEED" <<'EOF'
import os, random, sys
root, work, n, seed = sys.argv[1], sys.argv[2], int(sys.argv[3]), int(sys.argv[4])
sys.path.insert(0, os.path.join(root, "gen"))
import world_gen as wg, store_gen as sg, join_gen as jg
for focus in jg.FOCI:
    with open(os.path.join(work, focus + ".hist"), "w") as f:
        for k in range(n):
            rng = random.Random("%d/%s/%d" % (seed, focus, k))
            f.write(wg.encode(jg.join_history(rng, rng.randint(10, 70), focus)) + "\n")
# old-format histories for the optional regression comparison
rng = random.Random(seed)
with open(os.path.join(work, "old.hist"), "w") as f:
    for k in range(n):
        gen = [lambda: sg.random_store_history(rng, rng.randint(10, 80)), lambda: sg.map_history(rng, rng.randint(10, 60)),
               lambda: sg.events_history(rng, rng.randint(10, 60)), lambda: sg.lazy_history(rng, rng.randint(10, 50)),
               lambda: sg.purge_history(rng), lambda: sg.stale_history(rng)][k % 6]
        f.write(wg.encode(gen()) + "\n")
EOF

rc=0
for focus in join par restrict changeset; do
    "$BIN" world "$WORK/$focus.hist" > "$WORK/$focus.out"
    python3 - "$ROOT" "$WORK" "$focus" <<'EOF' || rc=1
import os, sys
root, work, focus = sys.argv[1:4]
sys.path.insert(0, os.path.join(root, "gen"))
import world_gen as wg, join_gen as jg
hists = open(os.path.join(work, focus + ".hist")).read().splitlines()
outs = open(os.path.join(work, focus + ".out")).read().splitlines()
assert len(hists) == len(outs), "one transcript per history"
bad = joins = nonempty = lookups = hits = entries = 0
for k, (h, o) in enumerate(zip(hists, outs)):
    ents = [e.split() for e in o.split(" | ")]
    entries += len(ents)
    for j, e in enumerate(ents):
        if e in (["8"], ["9"]):
            bad += 1
            if bad <= 3:
                print("FAIL %s history %d: entry %d is [%s]\n  history: %s\n  transcript: %s"
                      % (focus, k, j, e[0], wg.pretty(wg.decode(h))[:3000], o[:3000]))
        elif e[0] == "21":
            joins += 1
            nonempty += int(e[1]) > 0
        elif e[0] == "22":
            lookups += 1
            hits += int(e[1])
print("%-9s %d histories, %d entries, [8]/[9] entries: %d; iterations (incl. CsDump) %d (%d non-empty), lookups %d (%d hits)"
      % (focus, len(hists), entries, bad, joins, nonempty, lookups, hits))
# samples: the two shortest histories
for k in sorted(range(len(hists)), key=lambda k: len(hists[k]))[:2]:
    print("  sample %s #%d\n    history:    %s\n    transcript: %s" % (focus, k, wg.pretty(wg.decode(hists[k])), outs[k]))
sys.exit(1 if bad else 0)
EOF
done

if [ -n "${BASELINE_HARNESS:-}" ]; then
    "$BASELINE_HARNESS" world "$WORK/old.hist" > "$WORK/old.base"
    "$BIN" world "$WORK/old.hist" > "$WORK/old.new"
    if cmp -s "$WORK/old.base" "$WORK/old.new"; then
        echo "old-format histories: transcripts identical to $BASELINE_HARNESS"
    else
        echo "FAIL: old-format transcripts differ from $BASELINE_HARNESS"; rc=1
    fi
fi

if [ $rc -eq 0 ]; then echo "joins smoke: OK"; else echo "joins smoke: FAILED"; fi
exit $rc
