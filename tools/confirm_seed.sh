#!/bin/bash
# usage: tools/confirm_seed.sh <worker-id> <dir with patch.diff and demo.rs> ...
# Confirms, in a scratch worktree of /repo (kept per worker so that dependencies are built once, removed by
# `tools/confirm_seed.sh <worker-id> --done`), for each seeded change: the patch applies, the crate builds with
# default and with full features, the 77 baseline tests pass, the demonstration fails with the patch and passes
# without.  Writes <dir>/confirm.json.
set -u
w=$1; shift
wt=/var/tmp/confirm-w$w
if [ "${1:-}" = "--done" ]; then git -C /repo worktree remove --force "$wt" 2>/dev/null; rm -rf "$wt"; exit 0; fi
[ -d "$wt" ] || git -C /repo worktree add -q "$wt" HEAD || exit 2
export CARGO_NET_OFFLINE=true
FEAT="serde,uuid_entity,storage-event-control,derive"
dirs=()
for d in "$@"; do dirs+=("$(realpath "$d")"); done
for d in "${dirs[@]}"; do
  cd "$wt" || exit 2
  git checkout -q -- . ; rm -f tests/seed_demo.rs
  res() { python3 - "$d" "$@" <<'P'
import json,sys
d=sys.argv[1]; kv=dict(x.split("=",1) for x in sys.argv[2:])
json.dump(kv, open(d+"/confirm.json","w"), indent=1, sort_keys=True)
P
  }
  if ! git apply "$d/patch.diff" 2>/dev/null; then res applies=no; echo "$d: PATCH DOES NOT APPLY"; continue; fi
  b1=$(cargo build --offline 2>&1 | tail -1 | grep -c Finished)
  b2=$(cargo build --offline --features $FEAT 2>&1 | tail -1 | grep -c Finished)
  suite=$(cargo nextest run --workspace --no-fail-fast --tool-config-file pb:/w/lib/nextest.toml --profile pb --test-threads 8 --offline 2>&1 | grep -E "Summary" | tail -1 | sed 's/^ *//')
  cp "$d/demo.rs" tests/seed_demo.rs
  demofeat=""; grep -q 'feature *= *"\|FlaggedStorage\|event_emission\|storage-event-control\|saveload\|uuid_entity\|specs::Component\|derive(Component\|derive(Saveload\|ConvertSaveload' tests/seed_demo.rs && demofeat="--features $FEAT"
  with=$(cargo test --offline $demofeat --test seed_demo 2>&1 | grep -E "^test result|^error" | head -1)
  git apply -R "$d/patch.diff"
  without=$(cargo test --offline $demofeat --test seed_demo 2>&1 | grep -E "^test result|^error" | head -1)
  rm -f tests/seed_demo.rs
  res applies=yes build_default=$b1 build_features=$b2 "suite=$suite" "demo_with_patch=$with" "demo_without_patch=$without" "demo_features=$demofeat" "confirmed_by=tools/confirm_seed.sh in a scratch worktree of /repo"
  echo "$d: build=$b1/$b2 suite=[$suite] with=[$with] without=[$without]"
done
