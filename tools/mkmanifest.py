#!/usr/bin/env python3
"""Regenerates /verif/MANIFEST.json from the table below."""
import json
import os

ROOT = os.path.dirname(os.path.dirname(os.path.abspath(__file__)))
ids = [json.loads(l)["id"] for l in open(os.path.join(ROOT, "properties.jsonl"))]

NOTE = ("Trusted: Coq 8.16.1 kernel; no axioms (Print Assumptions: closed under the global context); extraction via "
        "ExtrOcamlBasic only; hand-written glue (ocaml/driver.ml, sv, lib/svlib, gen, harness). The Rust code is modelled "
        "by hand (coq/theories/Alloc/AllocModel.v, Store/Raw.v, Store/Masked.v, World/Env.v, World/World.v) and tied by "
        "differential execution of the extracted model and the real World on the explored histories; hibitset bit sets "
        "are modelled as finite sets with ascending iteration, shred's World/MetaTable as a map and a list, shrev's "
        "channel as a list with reader cursors.")
TECH = ("machine-checked proof in Coq (faithful model refined to a specification; invariants by induction over histories), "
        "tied to the code by differential correspondence with the extracted model")

ENGINE = {}
claimed = {
    "C01": ("Theorems (closed under the global context): every transcript accepted by the lifecycle specification has "
            "pairwise distinct handles over all creation paths and at most one not-yet-dead entity per index (any history "
            "length); the faithful model of Allocator/EntityCache/WorldExt refines the specification on every history and "
            "its allocator never panics. Tie: the real World and the extracted model run the same histories (exhaustive "
            "over a reduced alphabet to depth 4/5, structured random, planted failing batches); transcripts must be equal "
            "and accepted by the extracted specification.", "5.C01"),
    "C02": ("Theorems: alive on return, dead forever (over every accepted continuation), failing deletion changes nothing, "
            "batch stops at the first dead handle with exactly the prefix deleted, entities join = alive set in ascending "
            "order; faithful model refines the specification. Tie as C01 with every handle probed after every operation.",
            "5.C02"),
    "C03": ("Theorems: through every handle-taking access path of the Storage API (get, get_mut, contains, insert, remove, "
            "entry, get_mut_or_default) a handle that is not alive yields the absent outcome and leaves the storage equal, "
            "for every storage kind, wrapper and mask content; a dead handle stays dead in every accepted continuation; "
            "Tie: stale-handle probe matrices (index reused 0..n times, merged or not) over all 18 storage ids (five kinds x plain / Flagged / DerefFlagged, the null storage also under both wrappers), every path, "
            "occupant read before and after; a rejection by the plain-map specification at an access through a handle the "
            "specification knows to be dead is the violation; the join paths are covered too: the lending join's lookup by "
            "entity and the restricted items' get_other / get_other_mut are run with dead and stale (reused index) handles "
            "and a rejection at such a join is the same violation; theorems: the lending lookup of a dead handle yields no "
            "item and changes nothing, get_other / get_other_mut of a dead handle answer None.",
            "5.C03"),
    "C04": ("Theorems: each of the five raw storage kinds refines the plain map under the UnprotectedStorage protocol "
            "(insert, get, write, remove with the dense swap-remove fix-up, clean), slice views agree (vec, default, dense "
            "bijection), every Storage-API operation gives equal results on any two representations of the same map and "
            "keeps them related, whole histories on real kinds and on plain maps give equal outputs, and no step is stuck "
            "when components are registered before use. Tie: exact transcript equality (including dense slice order, drop "
            "order, events) between the real World and the extracted faithful model on all 18 storage ids.", "5.C04"),
    "C05": ("Theorems: on the specification machine, for every accepted history in which components are registered before "
            "use, every storage resource is listed in the MetaTable and every index in any storage's mask belongs to an entity "
            "that is alive or awaiting maintain (invariant proved through all creation, deletion, maintain and storage "
            "operations, all registration paths); hence a newly created entity, including one that reuses an index, has no "
            "component in any storage; delete_components removes the deleted entities' components from every storage known "
            "to the world and leaves every other entity's component unchanged. Tie: histories of creations with components, "
            "insertions, every deletion path (immediate, deferred, batches with a failing element, delete_all, dropped "
            "builders), 1-18 storage ids made known by all four paths (some after entities exist), with every storage observed "
            "after every deletion and after the creations that follow; a rejection by the plain-map specification at an "
            "observation, or a difference in the values destroyed by a deletion, is the violation.", "5.C05"),
    "C09": ("Theorems about the literal model of the lazy queue (push; pop-until-empty loop with explicit fuel): the queued "
            "actions run only after the merge and the purge of that maintain; the actions run are the queue as it was followed "
            "by the actions queued by running actions, in queue order, each exactly once (FIFO, nested later in the same "
            "maintain); each action performs exactly its operations in order; the queue is empty when maintain returns (the "
            "fuel is proved sufficient); a lazy insert/remove is the generation-checked Storage operation, so on a dead target "
            "nothing changes except that the carried value is destroyed; histories without lazy operations are unchanged. All "
            "earlier theorems apply to the flattened history. Tie: the real World runs lazy inserts, batch inserts, removes, "
            "lazy builders and closures (nested to depth 3, creating and deleting entities, queueing further closures) over "
            "several maintains; every operation run inside a closure is logged in order with what it destroyed and compared "
            "exactly with the extracted model; queues of several hundred pending actions with nested queueing.", "5.C09"),
    "C12": ("Theorems: for both wrappers over any inner kind, every Storage-API operation other than clear() and the "
            "emission switch appends events whose replay over the old membership gives the new membership (the relation is "
            "transitive, so it holds between a reader's registration and any later read); builder/lazy insertion and entity "
            "deletion report through the same paths; with emission off, or on a plain storage, nothing is appended; Modified "
            "is appended by FlaggedStorage on every get_mut and by DerefFlaggedStorage exactly when the returned access was "
            "dereferenced mutably or written through; read-only operations append nothing. Tie: the ten wrapped storages with "
            "readers registered early and read often, every removal path, emission toggled at random points; the events "
            "delivered to each reader must equal the specification's. Further theorem: whatever the tuple and the kind of "
            "join, a tracked storage's channel receives exactly the events of the mutable accesses and removals the join's "
            "rows show, in visit order, and nothing when emission is off. Beside the theorems (implementation alone, no "
            "model): with a component destructor armed to panic at every position of every destroying operation on the ten "
            "tracked storages, the events read afterwards still replay to the mask the storage shows.", "5.C12"),
    "C17": ("Theorem: in every accepted transcript each creation takes an index below the peak number of simultaneously "
            "not-yet-dead entities up to and including that creation (induction over the history, any length), and, the "
            "property's second form, a never-used index is taken only as the next one with every lower index occupied by an "
            "entity that is alive or awaiting maintain, every other creation reusing a free index; the faithful "
            "(repaired) model refines the specification; the code as found is refuted by a vm_compute witness. Tie as C01 "
            "plus long churn histories.", "5.C17"),
}
claimed["C18"] = (
    "Theorems (Coq, closed under the global context) on a deep embedding of the shapes accepted by "
    "#[derive(ConvertSaveload)] and of the code it emits: convert_from after convert_into is the identity for every "
    "definition, value and pair of id mappings inverse on the value's entities; the data is the value with entity leaves "
    "mapped to markers, everything else and the order unchanged, and is a value of the generated Data definition; fields "
    "are converted one by one in declaration order by their own conversions, skipped fields verbatim, variants by name; "
    "supported shapes never panic when all entities are marked; storage_type gives the three #[derive(Component)] cases. "
    "Tie: generated crates (48-60 types each) carrying the real derives are built against the repository and compared "
    "case by case (JSON text, round-trip equality, panic, type_name of the storage) with the extracted model. Partial: "
    "rustc's expansion/type checking of the emitted tokens, serde's derive and serde_json are trusted (modelled by ser_* "
    "in SaveLoad/DeriveCodec.v), tied only by running the generated crates.", "5.C18")
ENGINE["C18"] = "coq-derive"
claimed["C11"] = (
    "Theorems (Coq, closed under the global context): for every sequence of add/add_barrier the model of shred 0.16.1's "
    "StagesBuilder yields stages whose groups are pairwise free of write/read and write/write intersections, with every "
    "dependency in an earlier stage or earlier in the same group and every system exactly once; in every interleaving of "
    "the groups of each stage every system runs exactly once, dependencies end before dependants start, no conflicting "
    "systems overlap, and the borrow flags never refuse a borrow (also at single-borrow granularity); each storage "
    "handle's fetch borrows exactly its reads()/writes(). Tie: the stage/group tree of the real DispatcherBuilder equals "
    "the model's on every generated graph (exact); the real reads()/writes() and the borrow flags probed after a real "
    "fetch equal the table; real dispatches on rayon pools of 1-32 threads are logged and every log is checked by the "
    "extracted checker. Partial: shred's StagesBuilder, the World borrow flags and rayon live outside /repo and are "
    "modelled and validated, not verified; thread-local systems and batch dispatchers are not modelled.", "5.C11")
ENGINE["C11"] = "coq-dispatch"
claimed["C10"] = ("Theorems (Coq, closed under the global context) about the interleaving model Conc/AtomicLTS.v, for every number of threads, all finite programs over create / delete / is_alive / lazy push and every schedule (an arbitrary list of thread indices), from any allocator state R-related to a lifecycle state: handles returned to all threads have pairwise distinct indices and differ from every handle alive at the start; a returned handle is alive in every later state of the phase; a deletion request for a handle alive at the start or returned earlier passes the is_alive check, returns Ok and its index stays in killed; no step panics; when all threads have finished the shared state equals (up to the tree shape of the two sets) the state reached by the faithful sequential functions a_alloc_atomic / a_kill_atomic run in linearisation order, every thread received exactly the results that sequential run returns (linearisability), the state is R-related to the lifecycle state reached by the same creations and deferred deletions (so C01/C02/C17 take over at maintain), and the lazy queue is an interleaving of the threads' pushes (each once, program order kept). Tie: the real code runs in lock step under the same schedules through yield points between its atomic steps (hooks/c10_yield.patch); per-thread results, the allocator dump before and after maintain, the entities join and the run order of the queued actions must equal the extracted model's, and the extracted predicate c10_ok must hold on the implementation's transcript. Schedules are enumerated by the extracted model itself: every schedule of 2 threads x 1 op at full granularity, every schedule (up to the position of steps reading phase-immutable data) of 2x2 and 3x1 (thorough: full op alphabet, 3x2 with at most one creation) from four initial states, plus random programs and schedules (thorough: up to 8 threads x 6 ops) and a stress run on real threads." + " Partial: sequentially consistent interleavings only (Relaxed reorderings, spurious compare_exchange_weak failures and the multi-word updates inside hibitset's AtomicBitSet / crossbeam's queue are outside the model; a stress run on real threads samples them); the post-maintain alive-set equation is evaluated per case by the extracted checker, the theorems hand the final state to the sequential development.", "5.C10")
ENGINE["C10"] = "coq-conc"
claimed["C14"] = (
    "Theorems (Coq, closed under the global context) about the model of specs::saveload (SerializeComponents, "
    "DeserializeComponents, MarkerAllocator, ConvertSaveload for entity-carrying components), for every source world "
    "satisfying the marker invariant, any number of entities and any reference graph: the serialised data has one record "
    "per live marked entity with distinct ids and each slot is the conversion of the component with entity fields replaced "
    "by marker ids; serialize panics only on a reference to an unmarked or dead entity; deserialising any permutation of "
    "the data into an empty world yields a world in which 'same marker id' is a bijection between marked source entities "
    "and target entities, component presence agrees, plain values are equal and references point to the counterpart "
    "(forward references included); serialize_recursive marks exactly the reference closure of the initially marked "
    "entities, and its data round-trips the same way; more fuel never changes a result. Tie: histories over two worlds "
    "(create, insert with references, mark, delete, maintain, serialise with JSON and RON, deserialise into the other or the "
    "same world) run on the real code with SimpleMarker and UuidMarker; every output, the component tables and the "
    "allocator state must equal the extracted model's. Partial: JSON/RON bytes are parsed back with serde and compared as "
    "data; UuidMarker's random allocation is covered through explicit ids.", "5.C14")
ENGINE["C14"] = "coq-saveload"
claimed["C15"] = (
    "Theorems (Coq, closed under the global context): an invariant (mapping agrees with live holders, entries pointing at "
    "live entities point at the holder, counter above every id, storages hold only not-dead entities) holds after every "
    "history of create / insert / remove / mark / mark-with-id (fresh) / delete / deferred delete / maintain / "
    "allocator.maintain / serialise / deserialise of arbitrary data; hence no two live entities carry the same marker id, "
    "mark of a marked entity returns the existing marker and changes nothing, a load updates holders in place, creates an "
    "entity only for an id nobody holds, gives the holder exactly the slots of the last record with its id, removes the "
    "slots recorded absent, leaves other entities alone, a repeated load creates nothing, a stale mapping entry is never "
    "trusted. Machine bound: marker ids below 2^64-1; the boundary is a known finding (u64 wrap of the counter in builds "
    "without overflow checks), witnessed in Coq and reproduced on the real code. Tie as C14.", "5.C15")
ENGINE["C15"] = "coq-saveload"
claimed["C06"] = (
    "Theorems (Coq, closed under the global context) about the model of joins (World/Join.v: keys from the members' "
    "masks, ascending walk, per-member get in tuple order through three guarded storage primitives): the keys are strictly "
    "ascending (each index once); an index is visited iff every member has it, where a storage / restricted storage / "
    "drain has its mask, the entities resource the live-or-pending indices, a bit set its bits, a negated storage the "
    "complement, a change set its keys and an optional member everything; the items' indices of the whole join are that "
    "intersection with one item per member; an early stop visits a prefix; an optional member is reported present exactly "
    "when it has the index; the lending join visits the same indices and its lookup by entity / by index answers exactly "
    "for (live entities in) the intersection; every storage kind joins like the plain map; the faithful allocator and the "
    "lifecycle specification give the same join, so joins are covered by the refinement theorems of C01/C02. Tie: tuples "
    "of 1-8 type-erased members run through the real macro-generated tuple impls, BitAnd tree, JoinIter / JoinLendIter / "
    "MaybeJoin / AntiStorage / Drain / RestrictedStorage / ChangeSet impls and hibitset iteration over sparse masks "
    "straddling 64 / 4096 / 262144, on all 18 storage ids, interleaved with direct operations; items, events, destroyed "
    "values and the storage contents afterwards must equal the specification's. Further theorems: the join on real "
    "storages of any kind refines the join on the plain maps they represent (same items, related final states); on those "
    "maps every storage member hands out, for every visited index, the value a direct lookup returns, a mutation through "
    "an item lands exactly once on each visited cell of that storage and on no other cell, storages that no member owns "
    "are not changed at all, a drain removes exactly the visited components; a join with registered members is never "
    "stuck (no unchecked access to an absent slot) and adds no member to any mask - so the never-stuck and purge "
    "invariants of C04/C05/C08 cover histories with joins. The masks themselves: a model of the four-layer bit set "
    "(Bits/Hibit.v: BitSet add / remove / contains, the layer-walking BitIter, the and / or / not / xor combinators) with "
    "theorems that any sequence of add / remove keeps the layers consistent and in step with the plain finite set of the "
    "join model, that iterating a set or any combination of sets terminates having yielded exactly the members of the "
    "combination in strictly ascending order, and that this is the very list (NS.elements) the join model enumerates - "
    "for all indices below 2^24, so also across the 64 / 4096 / 262144 boundaries; that model is tied to the real hibitset "
    "types by its own correspondence (layers word for word, membership, iteration). Partial: the bit-set layer is a "
    "hand-written model of a crate outside /repo (words as ascending lists of bit positions; AtomicBitSet not modelled).",
    "5.C06")
claimed["C07"] = (
    "Theorems: in the model the parallel join is the sequential join - same items, same final storages - for every member "
    "mix that has the ParJoin impls, whatever the pool size; the indices delivered are the intersection without "
    "repetition; every storage kind behaves as the plain map. Tie: the real par_join runs on rayon pools of 0-64 threads "
    "over sparse and boundary-straddling masks with shared and mutable members (all DistinctStorage kinds), restricted "
    "members and optional members; the rows delivered by the workers (sorted by index) and the storage contents "
    "afterwards must equal the specification's; independently of the model, a parallel join that follows the same "
    "read-only join run sequentially must deliver the same rows. Further theorems (on the maps the storages represent, "
    "to which the real join is proved to refine): however the index space is split and in whatever order the pieces are "
    "processed (any permutation of the keys), the storages end up cell for cell the same, every index is delivered "
    "exactly once and every storage member hands out the same component for each index; the visit of one index touches "
    "no cell of another index (so no component is handed to two workers). The producer par_join hands to rayon is "
    "modelled too (Bits/Hibit.v: BitProducer::split with the depth par_join asks for, on the four-layer mask): one split "
    "loses and repeats nothing, and for every tree of splits, every mask combination and every content, each leaf's loop "
    "terminates and the leaves' outputs one after the other are the sequential iteration - each member comes out of "
    "exactly one leaf, once; the real BitProducer is run through explicit split trees against that model (leaves compared "
    "one by one). Partial: workers are modelled as an arbitrary sequential order of whole visits; which tree rayon picks "
    "and truly simultaneous execution are outside the model and sampled by the correspondence.", "5.C07")
claimed["C13"] = (
    "Theorems: a restricted view is a join member exactly where the storage is; reading through an item is the guarded "
    "read of the item's own index (the primitive a direct join uses); item types without get_other report no lookups; "
    "looking up another entity answers exactly for handles that are alive and whose index is in the mask, and neither it "
    "nor anything else done through an item changes any storage's membership; every storage kind behaves as the plain "
    "map. Tie: restrict() / restrict_mut() / shared reference to restrict_mut() joined sequentially, lending and in "
    "parallel on all 18 storage ids; per item get, get_mut on a caller-chosen subset (i mod m = r), get_other / "
    "get_other_mut of live, dead, stale (reused index) and component-less handles; readers on the tracked storages "
    "observe the events; all compared with the specification. Further theorems (on the maps, via the refinement): of the "
    "visited cells exactly those the caller chose to fetch mutably change, every other cell keeps its value; read-only "
    "restrictions change nothing; on the real storages a restricted item appends exactly one Modified for its index "
    "when the caller fetches it mutably (tracked storage, emission on) and nothing otherwise, and reading never emits. "
    "Partial: the event theorem is per item (items without other-entity lookups); the whole event stream of a join is "
    "decided by the correspondence.", "5.C13")
claimed["C16"] = (
    "Theorems: for every sequence of (entity, amount) pairs the change set holds, per index, the combination of its "
    "amounts in arrival order (a non-commutative combination, so the order is observable) and nothing for an index that "
    "is not mentioned; collecting, extending and adding one by one agree (extend = collect of the concatenation); the slot "
    "operations are these functions and touch no other slot; as a join member a change set has exactly its keys, a join "
    "visits each index of the intersection once, the item handed out is the accumulated amount (taken out when joined by "
    "value, updated in place when joined mutably, untouched when shared), and a change set joined by value is empty "
    "afterwards; for any tuple around the change-set member and any keys (on the maps, to which the real join refines): "
    "the amount paired with index j is the amount accumulated for j when the join started, every visited amount is "
    "combined / taken exactly once and the amounts of other indices are untouched. Tie: ChangeSet<Amt> slots driven through new / add / collect / extend / clear with repeated and dead "
    "handles, joined by reference, mutably and by value with storages, entities and bit sets through the real impls; "
    "rows and dumps compared with the specification.", "5.C16")
claimed["C08"] = (
    "Theorems (Coq, closed under the global context): no history in which components are registered before use ever reads "
    "a slot that was never written, was moved out or lies outside the allocation (the faithful storage models mark each "
    "such access as stuck; never-stuck is proved for all histories and all five raw kinds with both wrappers); per "
    "operation: remove hands back the stored value and destroys nothing, an overwrite hands back the old value, an insert "
    "refused for a dead entity destroys exactly the refused value, deletion destroys exactly that entity's value once and "
    "removes the slot, clear leaves nothing behind; per storage kind: VecStorage::clean destroys exactly the initialised "
    "slots named by the mask, once each, in mask order, and marks them moved-out, the map kinds destroy every value once, "
    "the null storage materialises one unit per member; values queued lazily are stored or destroyed by the same "
    "generation-checked operation. Tie and whole-history ledger: the harness records every value constructed, handed "
    "back and destroyed (and every look at a value that is already gone); on every explored history (all 18 storage ids, "
    "every insertion / removal / drain / entry / clear / deletion / maintain / lazy / join-with-drain path, ending with "
    "the world dropped) constructed = handed back + destroyed as multisets, nothing is looked at after it is gone, and "
    "the values destroyed by each operation equal the specification's. The ledger equation is proved (over multisets of "
    "values): operation by operation for the whole Storage API (insert, remove, get_mut, get_mut_or_default, drain, entry "
    "API, clear / Drop - VecStorage, DenseVecStorage, the map storages and the null storage, both wrappers), for entity "
    "deletion, and over whole histories of the specification world (every storage the plain map, with which the "
    "implementation's results and destroyed values are compared on every explored history): for every history - joins "
    "included: a join moves nothing in and destroys nothing, what it hands out for good are exactly the values its drain "
    "members removed; a builder destroys a value it swaps out - in which components are registered before use, what the "
    "world holds at the end, everything handed back and everything destroyed along the way are what it held at the start "
    "plus everything moved in; hence from the empty world to the dropped world every value moved in is handed back or "
    "destroyed exactly once. For the default-filled kind (DefaultVecStorage keeps a value in every slot) the equation is "
    "proved per raw operation with the fillers counted: cells after + handed back + destroyed = cells before + moved in + "
    "defaults made. Partial: the whole-history theorem is for worlds whose storages are of the kinds without default-"
    "filled gaps (the per-history ledger of the harness covers all kinds); destructor panics are C19.", "5.C08")
claimed["C20"] = (
    "The models are Gallina functions of the history, so whatever they compute depends on nothing else; the theorems "
    "(closed under the global context) show that the orders do not come from anywhere but membership: two sets with the "
    "same members are iterated in the same (ascending) order, and two joins whose members agree on every index visit the "
    "same indices in the same order, whatever the storages' histories and representations; the records serialize writes "
    "are, position by position, those of the (entities, markers) join, which is strictly ascending in the entity index. "
    "That the implementation "
    "computes these functions is the correspondence of C01-C18; this check re-evaluates it between runs: every history "
    "(entity churn, hash-map and all other storages, events, lazy updates, deletions, joins, change sets) is executed in "
    "three processes (fresh hash seeds and address layout; in the third after other worlds and twice in a row), once more "
    "from a destructor while a caller's panic unwinds, once more in a process with a logger installed and lazy closures "
    "that take 9 ms each, and on the extracted model; results, handles, join rows, event streams, destroyed values and the ledger must be identical in "
    "all runs and equal to the model's; save/load histories are run in two processes and their serialised data compared. "
    "Partial: serialised output is compared as parsed data, not as bytes; the destruction order of HashMap::clear and of "
    "a dropped World's resources is unspecified in the code and canonicalised (sorted) before comparing.", "5.C20")
ENGINE["C20"] = "coq-world"
claimed["C19"] = (
    "Theorems (Coq, closed under the global context) about fault-aware models of the destroying operations, for every raw "
    "storage kind and wrapper, every content and every choice of which destructor call panics (none / first / k-th / "
    "last), and every oracle for the orders the code leaves unspecified (hash-map iteration, resource drop order): with "
    "no fault armed the functions coincide with the ordinary model; clear, drop(id) / delete_components, insert "
    "(overwrite and vacant), remove, Drop of a storage and of the World each visit no value twice, destroy exactly the "
    "stated values (all if the kind keeps destroying while unwinding, else the first k; the exact leaked remainder is "
    "stated per kind) and leave a storage satisfying the invariant (mask = keys of the map of owned values; for "
    "DefaultVecStorage a weaker instance that admits one unreachable live cell); over whole histories with faults the "
    "destruction ledger never holds a real value twice, no lookup, join, slice view or handed-back value carries a "
    "destroyed value, nothing is stuck, and the invariant holds after every history (the world stays usable); a faulting "
    "delete / maintain leaves the allocator exactly as the non-faulting one and only removes components of the deleted "
    "entities; the same for ChangeSet add / clear. Tie: the real code runs every destroying operation on all 18 storage ids "
    "with the fault position swept over every destructor call (and beyond), followed by observations, churn, a second "
    "faulting operation and teardown; destruction order, panic point and every observation must equal the extracted "
    "model's, and independently of the model the ledger must hold no value twice, no observation may show a destroyed "
    "value and the process must not crash. Partial: what std's drop glue / BTreeMap / hashbrown do while unwinding is "
    "measured and pinned by the correspondence, not derived; one fault per operation; drain, entry API, lazy actions and "
    "events under faults are not modelled (on the implementation alone the check also asks that deferred work queued after "
    "a destructor panic caught inside maintain is performed by the next maintain).", "5.C19")
ENGINE["C19"] = "coq-unwind"
REASONS = {}

checks = []
for pid, (text, ref) in claimed.items():
    checks.append({
        "property_id": pid, "quick_cmd": "./sv check %s --tier quick" % pid,
        "thorough_cmd": "./sv check %s --tier thorough" % pid, "evidence_file": "evidence/%s.json" % pid,
        "replay_cmd_template": "./sv replay {path}", "engine": ENGINE.get(pid, "coq-world"),
        "level_claimed": {"category": "proof", "text": text, "design_ref": ref},
        "level_note": NOTE, "technique": TECH})

m = {
    "version": 1, "setup_cmd": "./sv setup",
    "hooks": {"guard": "specs_verif",
              "enable": "RUSTFLAGS=\"--cfg specs_verif --check-cfg=cfg(specs_verif)\" (set by ./sv when it builds harness/)",
              "baseline_off_cmd": "cd /repo && cargo nextest run --workspace --no-fail-fast --tool-config-file "
                                  "pb:/w/lib/nextest.toml --profile pb --test-threads 8 --offline",
              "source_commits": ["5d1200a"], "add_only": True},
    "engines": [{"name": "coq-conc", "path": "coq/theories/Conc", "serves_properties": ["C10"],
                 "kind_free_text": "Coq interleaving model of the allocator's atomic paths + lock-step executor over yield hooks"},
                {"name": "coq-dispatch", "path": "coq/theories/Dispatch", "serves_properties": ["C11"],
                 "kind_free_text": "Coq model of shred's staging and borrow flags + instrumented real dispatch"},
                {"name": "coq-saveload", "path": "coq/theories/SaveLoad", "serves_properties": ["C14", "C15"],
                 "kind_free_text": "Coq model of specs::saveload (markers, serialise, deserialise) + two-world Rust executor"},
                {"name": "coq-unwind", "path": "coq/theories/Unwind", "serves_properties": ["C19"],
                 "kind_free_text": "Coq fault-aware models of the destroying operations + Rust executor with an armed destructor fault"},
                {"name": "coq-derive", "path": "coq/theories/SaveLoad", "serves_properties": ["C18"],
                 "kind_free_text": "Coq model of the derive macros' output + generated Rust crates carrying the real derives"},
                {"name": "coq-world", "path": "coq/theories", "serves_properties": sorted(p for p in claimed if ENGINE.get(p, "coq-world") == "coq-world"),
                 "kind_free_text": "Coq development (lifecycle spec, faithful allocator/storage/world models, refinement, "
                                   "property theorems) + extracted OCaml model + Rust correspondence harness"}],
    "checks": checks,
    "not_applicable": [{"property_id": i, "reason": REASONS.get(i, "not built yet (work in progress; DESIGN.md section 9 "
                        "gives the build order); not claimed until both the theorem and the correspondence exist")}
                       for i in ids if i not in claimed]}
json.dump(m, open(os.path.join(ROOT, "MANIFEST.json"), "w"), indent=1)
print("claimed:", sorted(claimed))
