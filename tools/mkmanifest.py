#!/usr/bin/env python3
"""Regenerates /verif/MANIFEST.json from the table below."""
import json
import os

ROOT = os.path.dirname(os.path.dirname(os.path.abspath(__file__)))
ids = [json.loads(l)["id"] for l in open(os.path.join(ROOT, "properties.jsonl"))]

NOTE = ("Trusted: Coq 8.16.1 kernel; no axioms (Print Assumptions: closed under the global context); extraction via "
        "ExtrOcamlBasic only; hand-written glue (ocaml/driver.ml, sv, lib/svlib, gen, harness). The Rust code is modelled "
        "by hand (coq/theories/Alloc/AllocModel.v, Store/Raw.v, Store/Masked.v, World/Env.v, World/World.v) and tied by "
        "differential execution of the extracted model and the real World on the explored histories; hibitset bit sets "
        "are modelled as finite sets with ascending iteration, shred's World/MetaTable as a map and a list, shrev's "
        "channel as a list with reader cursors.")
TECH = ("machine-checked proof in Coq (faithful model refined to a specification; invariants by induction over histories), "
        "tied to the code by differential correspondence with the extracted model")

ENGINE = {}
claimed = {
    "C01": ("Theorems (closed under the global context): every transcript accepted by the lifecycle specification has "
            "pairwise distinct handles over all creation paths and at most one not-yet-dead entity per index (any history "
            "length); the faithful model of Allocator/EntityCache/WorldExt refines the specification on every history and "
            "its allocator never panics. Tie: the real World and the extracted model run the same histories (exhaustive "
            "over a reduced alphabet to depth 4/5, structured random, planted failing batches); transcripts must be equal "
            "and accepted by the extracted specification.", "5.C01"),
    "C02": ("Theorems: alive on return, dead forever (over every accepted continuation), failing deletion changes nothing, "
            "batch stops at the first dead handle with exactly the prefix deleted, entities join = alive set in ascending "
            "order; faithful model refines the specification. Tie as C01 with every handle probed after every operation.",
            "5.C02"),
    "C03": ("Theorems: through every handle-taking access path of the Storage API (get, get_mut, contains, insert, remove, "
            "entry, get_mut_or_default) a handle that is not alive yields the absent outcome and leaves the storage equal, "
            "for every storage kind, wrapper and mask content; a dead handle stays dead in every accepted continuation. "
            "Tie: stale-handle probe matrices (index reused 0..n times, merged or not) over all 16 storages, every path, "
            "occupant read before and after; a rejection by the plain-map specification at an access through a handle the "
            "specification knows to be dead is the violation. Lending-join lookup and restricted get_other are not modelled "
            "yet (see DESIGN).", "5.C03"),
    "C04": ("Theorems: each of the five raw storage kinds refines the plain map under the UnprotectedStorage protocol "
            "(insert, get, write, remove with the dense swap-remove fix-up, clean), slice views agree (vec, default, dense "
            "bijection), every Storage-API operation gives equal results on any two representations of the same map and "
            "keeps them related, whole histories on real kinds and on plain maps give equal outputs, and no step is stuck "
            "when components are registered before use. Tie: exact transcript equality (including dense slice order, drop "
            "order, events) between the real World and the extracted faithful model on all 16 storages.", "5.C04"),
    "C17": ("Theorem: in every accepted transcript each creation takes an index below the peak number of simultaneously "
            "not-yet-dead entities up to and including that creation (induction over the history, any length); the faithful "
            "(repaired) model refines the specification; the code as found is refuted by a vm_compute witness. Tie as C01 "
            "plus long churn histories.", "5.C17"),
}
claimed["C18"] = (
    "Theorems (Coq, closed under the global context) on a deep embedding of the shapes accepted by "
    "#[derive(ConvertSaveload)] and of the code it emits: convert_from after convert_into is the identity for every "
    "definition, value and pair of id mappings inverse on the value's entities; the data is the value with entity leaves "
    "mapped to markers, everything else and the order unchanged, and is a value of the generated Data definition; fields "
    "are converted one by one in declaration order by their own conversions, skipped fields verbatim, variants by name; "
    "supported shapes never panic when all entities are marked; storage_type gives the three #[derive(Component)] cases. "
    "Tie: generated crates (48-60 types each) carrying the real derives are built against the repository and compared "
    "case by case (JSON text, round-trip equality, panic, type_name of the storage) with the extracted model. Partial: "
    "rustc's expansion/type checking of the emitted tokens, serde's derive and serde_json are trusted (modelled by ser_* "
    "in SaveLoad/DeriveCodec.v), tied only by running the generated crates.", "5.C18")
ENGINE["C18"] = "coq-derive"
claimed["C11"] = (
    "Theorems (Coq, closed under the global context): for every sequence of add/add_barrier the model of shred 0.16.1's "
    "StagesBuilder yields stages whose groups are pairwise free of write/read and write/write intersections, with every "
    "dependency in an earlier stage or earlier in the same group and every system exactly once; in every interleaving of "
    "the groups of each stage every system runs exactly once, dependencies end before dependants start, no conflicting "
    "systems overlap, and the borrow flags never refuse a borrow (also at single-borrow granularity); each storage "
    "handle's fetch borrows exactly its reads()/writes(). Tie: the stage/group tree of the real DispatcherBuilder equals "
    "the model's on every generated graph (exact); the real reads()/writes() and the borrow flags probed after a real "
    "fetch equal the table; real dispatches on rayon pools of 1-32 threads are logged and every log is checked by the "
    "extracted checker. Partial: shred's StagesBuilder, the World borrow flags and rayon live outside /repo and are "
    "modelled and validated, not verified; thread-local systems and batch dispatchers are not modelled.", "5.C11")
ENGINE["C11"] = "coq-dispatch"
REASONS = {}

checks = []
for pid, (text, ref) in claimed.items():
    checks.append({
        "property_id": pid, "quick_cmd": "./sv check %s --tier quick" % pid,
        "thorough_cmd": "./sv check %s --tier thorough" % pid, "evidence_file": "evidence/%s.json" % pid,
        "replay_cmd_template": "./sv replay {path}", "engine": ENGINE.get(pid, "coq-world"),
        "level_claimed": {"category": "proof", "text": text, "design_ref": ref},
        "level_note": NOTE, "technique": TECH})

m = {
    "version": 1, "setup_cmd": "./sv setup",
    "hooks": {"guard": "specs_verif",
              "enable": "RUSTFLAGS=\"--cfg specs_verif --check-cfg=cfg(specs_verif)\" (set by ./sv when it builds harness/)",
              "baseline_off_cmd": "cd /repo && cargo nextest run --workspace --no-fail-fast --tool-config-file "
                                  "pb:/w/lib/nextest.toml --profile pb --test-threads 8 --offline",
              "source_commits": [], "add_only": True},
    "engines": [{"name": "coq-dispatch", "path": "coq/theories/Dispatch", "serves_properties": ["C11"],
                 "kind_free_text": "Coq model of shred's staging and borrow flags + instrumented real dispatch"},
                {"name": "coq-derive", "path": "coq/theories/SaveLoad", "serves_properties": ["C18"],
                 "kind_free_text": "Coq model of the derive macros' output + generated Rust crates carrying the real derives"},
                {"name": "coq-world", "path": "coq/theories", "serves_properties": sorted(p for p in claimed if p not in ENGINE),
                 "kind_free_text": "Coq development (lifecycle spec, faithful allocator/storage/world models, refinement, "
                                   "property theorems) + extracted OCaml model + Rust correspondence harness"}],
    "checks": checks,
    "not_applicable": [{"property_id": i, "reason": REASONS.get(i, "not built yet (work in progress; DESIGN.md section 9 "
                        "gives the build order); not claimed until both the theorem and the correspondence exist")}
                       for i in ids if i not in claimed]}
json.dump(m, open(os.path.join(ROOT, "MANIFEST.json"), "w"), indent=1)
print("claimed:", sorted(claimed))
