#!/usr/bin/env python3
"""Regenerates the seeded-change table in DESIGN.md (between <!-- SEEDTABLE --> markers) from seeded/*/meta.json."""
import json, os, re
ROOT = os.path.dirname(os.path.dirname(os.path.abspath(__file__)))
rows = []
for d in sorted(os.listdir(os.path.join(ROOT, "seeded"))):
    mp = os.path.join(ROOT, "seeded", d, "meta.json")
    if not os.path.exists(mp):
        continue
    m = json.load(open(mp))
    notes = os.path.join(ROOT, "seeded", d, "notes.md")
    title = ""
    if os.path.exists(notes):
        for line in open(notes):
            line = line.strip().lstrip("#").strip()
            if line:
                title = re.sub(r"^(Change|Seed|change|seed)\s*\d+\s*[-—:–.]*\s*", "", line)[:110]
                break
    det = "; ".join("%s: %s" % (k, v.replace("VIOLATION with failing input", "failing input")
                                      .replace("VIOLATION no-failing-input-found (correspondence broke)", "no-failing-input-found"))
                    for k, v in m.get("detected_by", {}).items())
    rows.append("| %s | %s | %s | %s |" % (d, title.replace("|", "/"), det, (m.get("note") or "").replace("|", "/")[:160]))
table = "| seed | change | what the quick checks reported | note |\n|---|---|---|---|\n" + "\n".join(rows) + "\n"
p = os.path.join(ROOT, "DESIGN.md")
s = open(p).read()
if "<!-- SEEDTABLE -->" in s and "<!-- /SEEDTABLE -->" not in s:
    s = s.replace("<!-- SEEDTABLE -->", "<!-- SEEDTABLE -->\n" + table + "<!-- /SEEDTABLE -->")
else:
    s = re.sub(r"<!-- SEEDTABLE -->.*?<!-- /SEEDTABLE -->", lambda _: "<!-- SEEDTABLE -->\n" + table + "<!-- /SEEDTABLE -->", s, flags=re.S)
open(p, "w").write(s)
print(len(rows), "seeds")
